#!/bin/sh
# Offline setup: warm the Go build cache for the harness (checks rebuild from /repo's working tree anyway).
set -e
cd "$(dirname "$0")"
export GOFLAGS=-mod=mod GOPROXY=off GOSUMDB=off GOTOOLCHAIN=local
mkdir -p .build/bin evidence witness
(cd harness && go build -o /dev/null ./... ) || true
(cd tools/instr && go build -o ../../.build/bin/instr . ) || true
echo setup done
