"""C19: read the race detector's log files of a run and turn them into violations (engine E4)."""
import glob, os, re

PION = 'github.com/pion/transport/v3/'


def parse_reports(text):
    reps = []
    for blk in text.split('=================='):
        if 'WARNING: DATA RACE' not in blk:
            continue
        stacks, cur = [], None
        for line in blk.split('\n'):
            if re.match(r'^(Read|Write|Previous read|Previous write|Atomic|Previous atomic)', line.strip()) and ' by ' in line:
                cur = []
                stacks.append(cur)
                continue
            if line.startswith('Goroutine ') or line.strip() == '':
                if line.startswith('Goroutine '):
                    cur = None
                continue
            if cur is not None and line.startswith('  ') and not line.startswith('      '):
                cur.append(line.strip())
        reps.append((stacks[:2], blk))
    return reps


def innermost_pion(stack):
    for f in stack:
        if PION in f:
            f = f.split(PION, 1)[1]
            return re.sub(r'\(\)$', '', re.sub(r'\.func\d+(\.\d+)*', '', f))
    return None


def post(merged, results, work, V):
    files = glob.glob(os.path.join(work, 'race.*'))
    total = 0
    sigs = {}
    harness_only = 0
    for fn in files:
        try:
            text = open(fn, errors='replace').read()
        except OSError:
            continue
        for stacks, blk in parse_reports(text):
            total += 1
            fr = [innermost_pion(s) for s in stacks]
            if not any(fr):
                harness_only += 1
                sigs.setdefault('HARNESS', []).append(blk)
                continue
            sig = ' | '.join(sorted(f or '(outside pion/transport)' for f in fr))
            sigs.setdefault(sig, []).append(blk)
    merged['counters']['race_reports_total'] = total
    merged['counters']['race_report_signatures'] = len([s for s in sigs if s != 'HARNESS'])
    merged['counters']['race_log_files'] = len(files)
    for sig, blks in sigs.items():
        if sig == 'HARNESS':
            merged['inconclusive'].append('race report with both stacks outside pion/transport (harness bug): ' + blks[0][:600])
            merged.setdefault('broken', []).append('race report entirely inside the harness')
            continue
        merged['violations'].append(dict(key='race:' + sig, desc='data race (%d reports): %s' % (len(blks), sig),
                                         witness=dict(report=blks[0][:5000], reports=len(blks)), stage='race-logs', env={}))
