"""Per-property configuration of the driver: builds, stages (child processes), evidence text."""

def shards(q, t):
    return dict(quick=q, thorough=t)

PROPS = {}

for _p in ('C04', 'C05'):
    PROPS[_p] = dict(
        level='exploration',
        builds={'replay': dict(pkg='./cmd/replay')},
        stages=[dict(name='model', bin='replay', args=['-prop', _p], shards=shards(4, 16), par=16, timeout=1500)],
        need_counters=['checks', 'accepts'] + (['replays_attempted'] if _p == 'C04' else []),
    )

_pbuf = {'pbuf': dict(pkg='./cmd/pbuf', overlay='shim')}
PROPS['C06'] = dict(
    level='exploration', builds=dict(_pbuf, pbuf_race=dict(pkg='./cmd/pbuf', overlay='shim', race=True)),
    stages=[dict(name='seq', bin='pbuf', args=['-prop', 'C06', '-mode', 'seq'], shards=shards(4, 16), par=16),
            dict(name='conc', bin='pbuf_race', args=['-prop', 'C06', '-mode', 'conc'], shards=shards(4, 16), par=16, crash_is_violation=True)],
    replay_stage='seq',
    need_counters=['writes', 'reads', 'read_across_ring_end', 'grow_events', 'linearizable'],
)
PROPS['C07'] = dict(
    level='exploration', builds=_pbuf,
    stages=[dict(name='seq', bin='pbuf', args=['-prop', 'C07', '-mode', 'seq'], shards=shards(4, 16), par=16)],
    need_counters=['writes', 'reads', 'refused_by_count', 'refused_by_size', 'refused_by_cap'],
)
