"""Per-property configuration of the driver: builds, stages (child processes), evidence text."""

def shards(q, t):
    return dict(quick=q, thorough=t)

PROPS = {}

for _p in ('C04', 'C05'):
    PROPS[_p] = dict(
        level='exploration',
        builds={'replay': dict(pkg='./cmd/replay')},
        stages=[dict(name='model', bin='replay', args=['-prop', _p], shards=shards(4, 16), par=16, timeout=1500)],
        need_counters=['checks', 'accepts'] + (['replays_attempted'] if _p == 'C04' else []),
    )
