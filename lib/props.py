"""Per-property configuration of the driver: builds, stages (child processes), evidence text."""

def shards(q, t):
    return dict(quick=q, thorough=t)

PROPS = {}

for _p in ('C04', 'C05'):
    PROPS[_p] = dict(
        level='exploration',
        builds={'replay': dict(pkg='./cmd/replay')},
        stages=[dict(name='model', bin='replay', args=['-prop', _p], shards=shards(4, 64), par=16, timeout=1500)],
        need_counters=['checks', 'accepts'] + (['replays_attempted'] if _p == 'C04' else []),
    )

_pbuf = {'pbuf': dict(pkg='./cmd/pbuf', overlay='shim')}
PROPS['C06'] = dict(
    level='exploration', builds=dict(_pbuf, pbuf_race=dict(pkg='./cmd/pbuf', overlay='shim', race=True)),
    stages=[dict(name='seq', bin='pbuf', args=['-prop', 'C06', '-mode', 'seq'], shards=shards(4, 96), par=16),
            dict(name='conc', bin='pbuf_race', args=['-prop', 'C06', '-mode', 'conc'], shards=shards(4, 64), par=16, crash_is_violation=True)],
    replay_stage='seq',
    need_counters=['writes', 'reads', 'read_across_ring_end', 'grow_events', 'linearizable'],
)
PROPS['C07'] = dict(
    level='exploration', builds=dict(_pbuf, pbuf_race=dict(pkg='./cmd/pbuf', overlay='shim', race=True)),
    stages=[dict(name='seq', bin='pbuf', args=['-prop', 'C07', '-mode', 'seq'], shards=shards(4, 128), par=16),
            dict(name='conclimit', bin='pbuf_race', args=['-prop', 'C07', '-mode', 'conclimit'], shards=shards(4, 16), par=8, crash_is_violation=True, replay='rerun', group='g2')],
    replay_stage='seq',
    need_counters=['writes', 'reads', 'refused_by_count', 'refused_by_size', 'refused_by_cap', 'limit_histories'],
)

PROPS['C20'] = dict(
    level='exploration',
    builds={'xor_default': dict(pkg='./cmd/xorchk'),
            'xor_default_asan': dict(pkg='./cmd/xorchk', asan=True),
            'xor_old': dict(pkg='./cmd/xorchk', overlay='xorold'),
            'xor_old_race': dict(pkg='./cmd/xorchk', overlay='xorold', race=True),
            'xor_old_asan': dict(pkg='./cmd/xorchk', overlay='xorold', asan=True)},
    stages=[dict(name='subtle', bin='xor_default', args=['-impl', 'subtle'], shards=shards(6, 36), par=16, crash_is_violation=True, crash_key='subtle:crash'),
            dict(name='subtle-asan', bin='xor_default_asan', args=['-impl', 'subtle-asan', '-nq', '48', '-nt', '130', '-nolong'], shards=shards(2, 8), par=16, crash_is_violation=True, crash_key='subtle:crash'),
            dict(name='wordwise', bin='xor_old', args=['-impl', 'wordwise'], shards=shards(6, 36), par=16, crash_is_violation=True, crash_key='wordwise:crash'),
            dict(name='wordwise-checkptr', bin='xor_old_race', args=['-impl', 'wordwise-checkptr', '-nq', '48', '-nt', '130', '-nolong'], shards=shards(4, 16), par=16, crash_is_violation=True, crash_key='wordwise:crash'),
            dict(name='wordwise-asan', bin='xor_old_asan', args=['-impl', 'wordwise-asan', '-nq', '48', '-nt', '130', '-nolong'], shards=shards(4, 16), par=16, crash_is_violation=True, crash_key='wordwise:crash')],
    replay_stage='wordwise',
    need_counters=['calls_subtle', 'calls_wordwise', 'calls_wordwise-asan', 'calls_wordwise-checkptr'],
)

PROPS['C16'] = dict(
    level='exploration', builds={'vfilter': dict(pkg='./cmd/vfilter', overlay='shim')},
    stages=[dict(name='loss', bin='vfilter', args=['-prop', 'C16'], shards=shards(4, 14), par=14, crash_is_violation=True)],
    need_counters=['datagrams', 'forwarded', 'statistical_streams'],
)

_vf = {'vfilter_race': dict(pkg='./cmd/vfilter', overlay='shim', race=True)}
PROPS['C16']['stages'][0]['replay'] = 'rerun'
PROPS['C14'] = dict(
    level='exploration', builds=_vf,
    stages=[dict(name='delay@timer%d' % m, bin='vfilter_race', args=['-prop', 'C14'], shards=shards(4, 8), par=4,
                 env={'GODEBUG': 'asynctimerchan=%d' % m}, crash_is_violation=True, crash_key='delay:crash', group='g%d' % m) for m in (1, 0)],
    need_counters=['datagrams', 'cases_filter', 'cases_router', 'arrivals_within_100us_of_a_due_time'],
)

PROPS['C15'] = dict(
    level='exploration', builds=_vf,
    stages=[dict(name='tbf', bin='vfilter_race', args=['-prop', 'C15'], shards=shards(4, 8), par=4, crash_is_violation=True, crash_key='tbf:crash')],
    need_counters=['datagrams', 'forwarded', 'windows_checked', 'single_sender_runs', 'multi_sender_runs', 'drops_with_full_queue'],
)

PROPS['C18'] = dict(
    level='exploration', builds={'pipes_race': dict(pkg='./cmd/pipes', race=True)},
    stages=[dict(name='scripts', bin='pipes_race', shards=shards(4, 72), par=12, crash_is_violation=True, crash_key='pipes:crash')],
    need_counters=['bridge_writes', 'bridge_delivered', 'bridge_reorder_batches', 'bridge_drop_calls', 'dpipe_reads', 'dpipe_reads_after_peer_close'],
)

PROPS['C13'] = dict(
    level='exploration', builds={'vaddr_race': dict(pkg='./cmd/vaddr', overlay='shim', race=True), 'vaddr_delays': dict(pkg='./cmd/vaddr', overlay='yield', race=True)},
    stages=[dict(name='addr', bin='vaddr_race', shards=shards(4, 12), par=12, crash_is_violation=True, crash_key='addr:crash'),
            # the concurrent part again, with delays inserted at the synchronisation points of package vnet
            dict(name='addr-delays', bin='vaddr_delays', args=['-conconly'], shards=shards(4, 12), par=12, crash_is_violation=True, crash_key='addr:crash', group='g2', replay='rerun')],
    replay_stage='addr',
    need_counters=['attaches', 'auto_assigned', 'static_assigned', 'delivery_probes', 'binds', 'binds_conflicting', 'binds_ephemeral', 'probes_delivered', 'closes', 'concurrent_same_address_binds', 'concurrent_ephemeral_binds', 'concurrent_attachments'],
)

for _p in ('C02', 'C03'):
    PROPS[_p] = dict(
        level='exploration', builds={'vnat': dict(pkg='./cmd/vnat', overlay='shim'), 'vnat_race': dict(pkg='./cmd/vnat', overlay='shim', race=True)},
        stages=[dict(name='natmodel', bin='vnat', args=['-prop', _p], shards=shards(4, 72), par=12, crash_is_violation=True, crash_key='nat:crash'),
                dict(name='natconc', bin='vnat_race', args=['-prop', _p, '-mode', 'conc'], shards=shards(4, 12), par=12, crash_is_violation=True, crash_key='nat:crash', group='g2')],
        replay_stage='natmodel',
        need_counters=['outbound', 'inbound', 'mapping_reused', 'mapping_expired_then_recreated', 'inbound_admitted', 'inbound_must_refuse_no-permission', 'inbound_must_refuse_expired', 'exhaustion_histories', '1to1_in', '1to1_out', 'conc_phases', 'conc_audits'],
    )

PROPS['C09'] = dict(
    level='exploration', builds={'dl': dict(pkg='./cmd/dl', overlay='shim'), 'dl_race': dict(pkg='./cmd/dl', overlay='shim', race=True), 'dlsched': dict(pkg='./cmd/dlsched', overlay='yield')},
    stages=[dict(name='fake', bin='dl', args=['-mode', 'fake'], shards=shards(4, 48), par=16, crash_is_violation=True, crash_key='deadline:crash'),
            dict(name='real@timer1', bin='dl_race', args=['-mode', 'real'], shards=shards(2, 6), par=6, env={'GODEBUG': 'asynctimerchan=1'}, crash_is_violation=True, crash_key='deadline:crash', replay='rerun'),
            dict(name='real@timer0', bin='dl_race', args=['-mode', 'real'], shards=shards(2, 6), par=6, env={'GODEBUG': 'asynctimerchan=0'}, crash_is_violation=True, crash_key='deadline:crash', replay='rerun')],
    replay_stage='fake',
    need_counters=['stop_false_paths', 'stop_true_paths', 'real_sets', 'real_near_expiries_observed', 'sched_dfs_schedules'],
)

import os as _os
_V = _os.path.dirname(_os.path.dirname(_os.path.abspath(__file__)))
_PTS = _os.path.join(_V, '.build', 'overlay', 'yield', 'points.json')
PROPS['C08'] = dict(
    level='exploration', builds={'pbsched': dict(pkg='./cmd/pbsched', overlay='yield')},
    stages=[dict(name='sched', bin='pbsched', args=['-points', _PTS], shards=shards(14, 28), par=14, timeout=2400, env={'GOMAXPROCS': '2'}, crash_is_violation=True, crash_key='buffer:crash')],
    need_counters=['quiescent_points_inspected', 'quiescent_points_with_parked_readers', 'dfs_schedules', 'schedule_steps'],
)

PROPS['C12'] = dict(
    level='exploration', builds={'udpsched': dict(pkg='./cmd/udpsched', overlay='yield')},
    stages=[dict(name='sched', bin='udpsched', shards=shards(8, 42), par=14, timeout=2400, crash_is_violation=True, crash_key='udp:crash')],
    need_counters=['quiescent_points_inspected', 'rebind_and_leak_probes', 'dfs_schedules', 'schedules_with_close_tasks'],
)

PROPS['C10'] = dict(
    level='exploration', builds={'rdl_race': dict(pkg='./cmd/rdl', overlay='shim', race=True)},
    stages=[dict(name='scripts@timer%d' % m, bin='rdl_race', shards=shards(2, 6), par=4, env={'GODEBUG': 'asynctimerchan=%d' % m},
                 crash_is_violation=True, crash_key='rdl:crash', timeout=1800) for m in (1, 0)],
    need_counters=['reads_timeout', 'reads_data', 'parked_reads', 'scripts_vnet', 'scripts_vnet-conn', 'noise_datagrams_to_connected_socket', 'scripts_udp', 'scripts_bridge', 'scripts_dpipe', 'scripts_buffer'],
)
PROPS['C17'] = dict(
    level='exploration', builds={'ctxio_race': dict(pkg='./cmd/ctxio', overlay='shim', race=True), 'ctxsched': dict(pkg='./cmd/ctxsched', overlay='yield')},
    stages=[dict(name='ctxio@timer%d' % m, bin='ctxio_race', shards=shards(2, 6), par=4, env={'GODEBUG': 'asynctimerchan=%d' % m},
                 crash_is_violation=True, crash_key='ctxio:crash', timeout=1800, replay='rerun') for m in (1, 0)],
    need_counters=['reads_cancelled', 'writes_cancelled', 'reads_probe', 'writes_probe', 'stream_bytes', 'datagrams', 'probes_checked', 'dfs_schedules'],
)
PROPS['C09']['stages'].append(dict(name='sched', bin='dlsched', shards=shards(5, 10), par=10, timeout=900, env={'GOMAXPROCS': '2'}, crash_is_violation=True, crash_key='deadline:crash'))
PROPS['C17']['stages'].append(dict(name='sched', bin='ctxsched', shards=shards(4, 8), par=8, timeout=1800, group='gsched'))
PROPS['C17']['replay_stage'] = 'ctxio@timer1'

PROPS['C11'] = dict(
    level='exploration', builds={'udpdemux_race': dict(pkg='./cmd/udpdemux', overlay='shim', race=True)},
    stages=[dict(name='demux', bin='udpdemux_race', shards=shards(4, 36), par=6, crash_is_violation=True, crash_key='demux:crash', timeout=1800, replay='rerun')],
    need_counters=['datagrams_read', 'connections', 'overflow_phases', 'refused_by_backlog', 'refused_by_filter', 'reconnect_cases', 'same_port_different_ip_pairs'],
)

PROPS['C01'] = dict(
    level='exploration', builds={'vtrace_race': dict(pkg='./cmd/vtrace', overlay='shim', race=True), 'vtrace_delays': dict(pkg='./cmd/vtrace', overlay='yield', race=True)},
    stages=[dict(name='trace', bin='vtrace_race', args=['-prop', 'C01'], shards=shards(8, 70), par=14, crash_is_violation=True, crash_key='vnet:crash', timeout=1800),
            # the same checker with delays inserted at the synchronisation points of package vnet (thorough only)
            dict(name='trace-delays', bin='vtrace_delays', args=['-prop', 'C01'], shards=shards(0, 28), par=14, tiers=('thorough',), crash_is_violation=True, crash_key='vnet:crash', timeout=1800, group='g2')],
    replay_stage='trace',
    need_counters=['hop_events', 'must_deliver', 'datagrams_received', 'napt_outbound', 'nat_inbound_must', 'must_drop_held', 'loopback_received', 'ended_unbound', 'nat_1to1_outbound'],
)

from racepost import post as _racepost
_GOR = 'halt_on_error=0 log_path={work}/race.{stage}.{shard}'
_race_bins = {
    'races_a': dict(pkg='./cmd/races', overlay='shim', race=True),
    'races_b': dict(pkg='./cmd/races', overlay='yield', race=True),
    'pbuf_race': dict(pkg='./cmd/pbuf', overlay='shim', race=True),
    'vfilter_race': dict(pkg='./cmd/vfilter', overlay='shim', race=True),
    'pipes_race': dict(pkg='./cmd/pipes', race=True),
    'vaddr_race': dict(pkg='./cmd/vaddr', overlay='shim', race=True),
    'ctxio_race': dict(pkg='./cmd/ctxio', overlay='shim', race=True),
    'udpdemux_race': dict(pkg='./cmd/udpdemux', overlay='shim', race=True),
    'vtrace_race': dict(pkg='./cmd/vtrace', overlay='shim', race=True),
    'dl_race': dict(pkg='./cmd/dl', overlay='shim', race=True),
}
PROPS['C19'] = dict(
    level='exploration', builds=_race_bins, post=_racepost,
    stages=[
        dict(name='free', bin='races_a', shards=shards(12, 24), par=12, env={'GORACE': _GOR}, timeout=1800, replay='rerun'),
        dict(name='delays', bin='races_b', shards=shards(12, 24), par=12, env={'GORACE': _GOR}, timeout=1800, replay='rerun', group='g2'),
        dict(name='w-pbuf', bin='pbuf_race', args=['-prop', 'C06', '-mode', 'conc'], shards=shards(2, 4), par=8, env={'GORACE': _GOR}, group='g3', replay='rerun'),
        dict(name='w-tbf', bin='vfilter_race', args=['-prop', 'C15'], shards=shards(1, 2), par=8, env={'GORACE': _GOR}, group='g3', replay='rerun'),
        dict(name='w-delay', bin='vfilter_race', args=['-prop', 'C14'], shards=shards(1, 2), par=8, env={'GORACE': _GOR}, group='g3', replay='rerun'),
        dict(name='w-pipes', bin='pipes_race', shards=shards(1, 2), par=8, env={'GORACE': _GOR}, group='g3', replay='rerun'),
        dict(name='w-addr', bin='vaddr_race', shards=shards(1, 2), par=8, env={'GORACE': _GOR}, group='g3', replay='rerun'),
        dict(name='w-ctxio', bin='ctxio_race', shards=shards(1, 2), par=8, env={'GORACE': _GOR}, group='g3', replay='rerun'),
        dict(name='w-demux', bin='udpdemux_race', shards=shards(1, 2), par=8, env={'GORACE': _GOR}, group='g3', replay='rerun'),
        dict(name='w-trace', bin='vtrace_race', args=['-prop', 'C01'], shards=shards(2, 4), par=8, env={'GORACE': _GOR}, group='g3', replay='rerun'),
        dict(name='w-deadline', bin='dl_race', args=['-mode', 'real'], shards=shards(1, 2), par=8, env={'GORACE': _GOR}, group='g3', replay='rerun'),
    ],
    need_counters=['workloads_run'] + ['operations_' + w for w in ('build', 'socket', 'bind', 'tbf', 'filters', 'buffer', 'deadline', 'dpipe', 'listener', 'netctx', 'bridge', 'nat')],
)

# safety net: a child that dies with a panic / fatal error and a pion/transport frame in the trace is a violation for every stage
for _p, _cfg in PROPS.items():
    for _st in _cfg['stages']:
        _st.setdefault('crash_is_violation', True)
        _st.setdefault('crash_key', 'crash')
