NOT_BUILT = {}
TEXT = {
 'C04': dict(engine='E1 model monitor', design_ref='§3 C04', technique='runtime reference-model monitor (accepted-set oracle) over seeded + exhaustive small-space histories',
   level_text='Runtime monitoring: every Check/accept of thousands of generated histories (all listed window sizes incl. every residue class around multiples of 64, maxima from 0 to 2^64-1, plain and wrapping) is compared against the set of numbers actually accepted; thorough additionally enumerates every history of length <=5 over tiny sequence spaces. Held on the executions observed, not a proof.',
   level_note='Trusts the Go toolchain and the 60-line accepted-set model; detectors are driven from one goroutine; for the wrapping detector replays are constrained only while the newest accepted number is less than half the space ahead, and the two numbers nearest the half-space boundary are never accepted.'),
 'C05': dict(engine='E1 model monitor', design_ref='§3 C05', technique='runtime reference-model monitor (sliding-window rule from the statement) incl. purity of un-accepted checks',
   level_text='Runtime monitoring: the ok result of every Check and the latest flag of every accept are compared with the rule computed from the statement (newest, accepted set, window), so any check without accept that changes a later answer shows up as a later disagreement. Generator restricted to the quantifier of the property (max>=window; wrapping max+1>=2*window). Held on the executions observed.',
   level_note='Trusts the model (about 80 lines) and the toolchain; the two numbers nearest the wrapping half-space boundary are unconstrained; sequence spaces with fewer than 5 numbers are excluded (every number is a boundary number there).'),
}
