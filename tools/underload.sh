#!/bin/bash
# usage: tools/underload.sh <n burners> <command...>  — runs the command while n busy loops compete for the cores
# (hunting for checks whose verdict depends on the machine being quiet)
n=$1; shift
pids=()
for i in $(seq $n); do ( exec -a verif-burner bash -c 'while :; do :; done' ) & pids+=($!); done
"$@"; rc=$?
kill "${pids[@]}" 2>/dev/null; wait 2>/dev/null
exit $rc
