#!/bin/bash
# usage: tools/replaytest.sh <seed id> <check id>  — checks that a witness written under the seeded change replays as a violation, and is silent on the clean tree
sid=$1; p=$2
git -C /repo apply /verif/seeded/$sid/patch.diff || exit 1
w=$(./check $p quick 2>&1 | grep "^VIOLATION" | head -1 | sed 's/.*replay=//')
if [ -z "$w" ]; then echo "$sid/$p: no witness"; git -C /repo checkout -- .; exit 1; fi
./check $p --replay $w > /tmp/rp1.log 2>&1; r1=$?
git -C /repo checkout -- .
./check $p --replay $w > /tmp/rp2.log 2>&1; r2=$?
echo "$sid/$p witness=$(basename $w) replay_with_change_rc=$r1 replay_clean_rc=$r2 $(tail -1 /tmp/rp1.log | cut -c1-80)"
