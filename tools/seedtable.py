#!/usr/bin/env python3
"""Regenerate the seeded-change table of DESIGN.md section 10 from seeded/*/meta.json.
The table sits between the markers '| seeded change | what it does | caught by |' and the first blank line after it."""
import json, os, re, sys
root = os.path.dirname(os.path.dirname(os.path.abspath(__file__)))
rows = []
ids = sorted(os.listdir(os.path.join(root, 'seeded')))
for d in ids:
    p = os.path.join(root, 'seeded', d, 'meta.json')
    if not os.path.exists(p):
        continue
    m = json.load(open(p))
    a = m.get('agent_meta') or m
    s = str(a.get('summary') or '').replace('\n', ' ').replace('|', '/')[:230]
    c = str(m.get('caught_by') or '').replace('\n', ' ').replace('|', '/')
    rows.append('| %s | %s | %s |' % (d, s, c))
path = os.path.join(root, 'DESIGN.md')
txt = open(path).read()
head = '| seeded change | what it does | caught by |\n|---|---|---|\n'
i = txt.index(head) + len(head)
j = txt.index('\n\n', i)
txt = txt[:i] + '\n'.join(rows) + txt[j:]
missed = sum(1 for r in rows if re.search(r'only after|missed|until ', r.split('|')[3]))
txt = re.sub(r'\d+ of the \d+ were missed', '%d of the %d were missed' % (missed, len(rows)), txt)
open(path, 'w').write(txt)
print(len(rows), 'rows;', missed, 'first missed')
