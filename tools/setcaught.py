#!/usr/bin/env python3
"""usage: tools/setcaught.py <seed id> <caught_by text>   - records which checks report a seeded change"""
import json, sys
p = '/verif/seeded/%s/meta.json' % sys.argv[1]
m = json.load(open(p)); m['caught_by'] = sys.argv[2]
json.dump(m, open(p, 'w'), indent=1)
