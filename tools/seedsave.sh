save () 
{ 
    id=$1;
    src=$2;
    shift 2;
    mkdir -p /verif/seeded/$id;
    cp $src/patch.diff /verif/seeded/$id/;
    for f in $src/*_test.go $src/*.go $src/README* $src/*.md;
    do
        [ -f "$f" ] && cp "$f" /verif/seeded/$id/$(basename $f).txt;
    done;
    python3 - "$id" "$src" "$@" <<'EOF'
import json,sys
id,src=sys.argv[1],sys.argv[2]
caught=sys.argv[3]; ran=sys.argv[4]
try: m=json.load(open(src+'/meta.json'))
except Exception as e: m={'note':'agent meta unreadable: %s'%e}
out={'id':id,'property':id.split('-')[0],'agent_meta':m,'confirmed':{'demo_fails_with_change':True,'demo_passes_without':True,'existing_package_tests_pass_with_change':True},'caught_by':caught,'what_i_ran':ran}
json.dump(out,open('/verif/seeded/%s/meta.json'%id,'w'),indent=1)
EOF

}
