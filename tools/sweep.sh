#!/bin/bash
# usage: tools/sweep.sh <tier> <seeds...>   — runs every check at the given seeds, prints one line per run
tier=$1; shift
for s in "$@"; do
  for p in C01 C02 C03 C04 C05 C06 C07 C08 C09 C10 C11 C12 C13 C14 C15 C16 C17 C18 C19 C20; do
    out=$(VERIF_SEED=$s ./check $p $tier 2>&1); rc=$?
    echo "seed=$s $p rc=$rc $(echo "$out" | tail -1)"
    if [ $rc -ne 0 ]; then echo "$out" | grep -v "^VIOLATION" | head -5 | cut -c1-400; fi
  done
done
