module verifinstr

go 1.20
