// Command instr generates the go build -overlay used by the checks.
//
//   - export shims: every file under -shims/<pkg>/x.go is mapped to <repo>/<pkg>/zz_verif_x.go (add-only)
//   - mode "shim": vnet/nat.go gets time.Now() -> verifNow() (virtual clock hook, default time.Now)
//   - mode "yield": additionally verifYield(<id>) is inserted before every statement that itself performs a
//     synchronisation operation, in the files listed in yieldFiles, from the CURRENT working tree
//     (so an edited source file is instrumented the same way).
package main

import (
	"bytes"
	"encoding/json"
	"flag"
	"fmt"
	"go/ast"
	"go/format"
	"go/parser"
	"go/token"
	"os"
	"path/filepath"
	"sort"
	"strings"
)

var yieldFiles = []string{
	"packetio/buffer.go", "deadline/deadline.go", "udp/conn.go", "udp/batchconn.go", "dpipe/dpipe.go",
	"netctx/conn.go", "netctx/packetconn.go", "netctx/pipe.go", "connctx/connctx.go", "test/bridge.go",
	"vnet/router.go", "vnet/conn.go", "vnet/net.go", "vnet/conn_map.go", "vnet/chunk_queue.go",
	"vnet/delay_filter.go", "vnet/tbf.go", "vnet/nat.go", "vnet/udpproxy.go",
}

var clockFiles = []string{"vnet/nat.go"}

var fset = token.NewFileSet()
var nextID int

type point struct {
	ID   int    `json:"id"`
	File string `json:"file"`
	Line int    `json:"line"`
	What string `json:"what"`
}

var points []point
var curRel string

func yieldStmt(s ast.Stmt) ast.Stmt {
	nextID++
	p := fset.Position(s.Pos())
	var b bytes.Buffer
	format.Node(&b, fset, s)
	w := strings.SplitN(b.String(), "\n", 2)[0]
	if len(w) > 60 {
		w = w[:60]
	}
	points = append(points, point{nextID, curRel, p.Line, w})
	return &ast.ExprStmt{X: &ast.CallExpr{Fun: ast.NewIdent("verifYield"), Args: []ast.Expr{&ast.BasicLit{Kind: token.INT, Value: fmt.Sprint(nextID)}}}}
}

func instrList(list []ast.Stmt) []ast.Stmt {
	out := make([]ast.Stmt, 0, 2*len(list))
	for i, s := range list {
		instrStmt(s)
		switch s.(type) {
		case *ast.DeclStmt, *ast.EmptyStmt:
			out = append(out, s)
			continue
		}
		if relevant(s) {
			out = append(out, yieldStmt(s), s)
			if _, isGo := s.(*ast.GoStmt); isGo && i+1 < len(list) {
				// also right after a go statement: the new goroutine may run before its creator goes on
				if _, ret := list[i+1].(*ast.ReturnStmt); !ret && !relevant(list[i+1]) {
					out = append(out, yieldStmt(list[i+1]))
				}
			}
			if isUnlock(s) && i+1 < len(list) {
				// also right after an unlock: the window between releasing a lock and whatever comes next
				if _, ret := list[i+1].(*ast.ReturnStmt); !ret && !relevant(list[i+1]) {
					out = append(out, yieldStmt(list[i+1]))
				}
			}
		} else {
			out = append(out, s)
		}
	}
	return out
}

var syncNames = map[string]bool{"Lock": true, "Unlock": true, "RLock": true, "RUnlock": true, "Wait": true, "Add": true,
	"Done": true, "Store": true, "Load": true, "Do": true, "Stop": true, "Reset": true, "Close": true, "Set": true,
	"CompareAndSwap": true, "Swap": true}

// atomicFn recognises the functions of package sync/atomic (atomic.AddInt32, atomic.LoadUint64, ...).
func atomicFn(se *ast.SelectorExpr) bool {
	if id, ok := se.X.(*ast.Ident); !ok || id.Name != "atomic" {
		return false
	}
	for _, p := range []string{"Add", "Load", "Store", "Swap", "CompareAndSwap", "And", "Or"} {
		if strings.HasPrefix(se.Sel.Name, p) {
			return true
		}
	}
	return false
}

// isUnlock reports whether the statement is a plain x.Unlock() / x.RUnlock() call.
func isUnlock(s ast.Stmt) bool {
	es, ok := s.(*ast.ExprStmt)
	if !ok {
		return false
	}
	ce, ok := es.X.(*ast.CallExpr)
	if !ok {
		return false
	}
	se, ok := ce.Fun.(*ast.SelectorExpr)
	return ok && (se.Sel.Name == "Unlock" || se.Sel.Name == "RUnlock")
}

func isNil(nd ast.Node) bool {
	if nd == nil {
		return true
	}
	switch v := nd.(type) {
	case ast.Stmt:
		return v == nil
	case ast.Expr:
		return v == nil
	}
	return false
}

// relevant reports whether the statement itself (not nested blocks / func literals) performs a sync operation.
func relevant(s ast.Stmt) bool {
	switch n := s.(type) {
	case *ast.SelectStmt, *ast.SendStmt, *ast.GoStmt:
		return true
	case *ast.IfStmt:
		return (n.Init != nil && exprRelevant(n.Init)) || (n.Cond != nil && exprRelevant(n.Cond))
	case *ast.ForStmt, *ast.RangeStmt, *ast.BlockStmt, *ast.SwitchStmt, *ast.TypeSwitchStmt, *ast.LabeledStmt, *ast.DeferStmt:
		return false
	}
	return exprRelevant(s)
}

func exprRelevant(nd ast.Node) bool {
	found := false
	ast.Inspect(nd, func(x ast.Node) bool {
		switch e := x.(type) {
		case *ast.FuncLit:
			return false
		case *ast.UnaryExpr:
			if e.Op == token.ARROW {
				found = true
			}
		case *ast.CallExpr:
			if se, ok := e.Fun.(*ast.SelectorExpr); ok && (syncNames[se.Sel.Name] || atomicFn(se)) {
				found = true
			}
			if id, ok := e.Fun.(*ast.Ident); ok && id.Name == "close" {
				found = true
			}
		}
		return true
	})
	return found
}

func instrStmt(s ast.Stmt) {
	switch n := s.(type) {
	case *ast.BlockStmt:
		n.List = instrList(n.List)
	case *ast.IfStmt:
		instrStmt(n.Body)
		if n.Else != nil {
			instrStmt(n.Else)
		}
		if n.Init != nil {
			instrFuncLits(n.Init)
		}
		if n.Cond != nil {
			instrFuncLits(n.Cond)
		}
	case *ast.ForStmt:
		instrStmt(n.Body)
	case *ast.RangeStmt:
		instrStmt(n.Body)
	case *ast.SwitchStmt:
		for _, c := range n.Body.List {
			cc := c.(*ast.CaseClause)
			cc.Body = instrList(cc.Body)
		}
	case *ast.TypeSwitchStmt:
		for _, c := range n.Body.List {
			cc := c.(*ast.CaseClause)
			cc.Body = instrList(cc.Body)
		}
	case *ast.SelectStmt:
		for _, c := range n.Body.List {
			cc := c.(*ast.CommClause)
			cc.Body = instrList(cc.Body)
		}
	case *ast.LabeledStmt:
		instrStmt(n.Stmt)
	default:
		instrFuncLits(s)
	}
}

// instrFuncLits instruments function literals nested in expressions/statements.
func instrFuncLits(nd ast.Node) {
	ast.Inspect(nd, func(x ast.Node) bool {
		if fl, ok := x.(*ast.FuncLit); ok {
			fl.Body.List = instrList(fl.Body.List)
			return false
		}
		return true
	})
}

// rewriteClock replaces time.Now() by verifNow().
func rewriteClock(f *ast.File) int {
	n := 0
	ast.Inspect(f, func(x ast.Node) bool {
		if ce, ok := x.(*ast.CallExpr); ok {
			if se, ok := ce.Fun.(*ast.SelectorExpr); ok && se.Sel.Name == "Now" {
				if id, ok := se.X.(*ast.Ident); ok && id.Name == "time" && len(ce.Args) == 0 {
					ce.Fun = ast.NewIdent("verifNow")
					n++
				}
			}
		}
		return true
	})
	return n
}

func main() {
	repo := flag.String("repo", "/repo", "")
	shims := flag.String("shims", "", "")
	out := flag.String("out", "", "")
	mode := flag.String("mode", "shim", "shim|yield")
	flag.Parse()
	replace := map[string]string{}
	if err := os.MkdirAll(*out, 0o755); err != nil {
		fmt.Fprintln(os.Stderr, "instr:", err)
		os.Exit(1)
	}
	// 1. export shims
	pkgs := map[string]bool{}
	filepath.Walk(*shims, func(p string, info os.FileInfo, err error) error {
		if err != nil || info.IsDir() || !strings.HasSuffix(p, ".go") {
			return nil
		}
		rel, _ := filepath.Rel(*shims, p)
		dir := filepath.Dir(rel)
		replace[filepath.Join(*repo, dir, "zz_verif_"+filepath.Base(rel))] = p
		pkgs[dir] = true
		return nil
	})
	// 2. rewrites
	todo := map[string][2]bool{} // rel -> {yield, clock}
	for _, f := range clockFiles {
		t := todo[f]
		t[1] = true
		todo[f] = t
	}
	if *mode == "yield" {
		for _, f := range yieldFiles {
			t := todo[f]
			t[0] = true
			todo[f] = t
		}
	}
	var rels []string
	for f := range todo {
		rels = append(rels, f)
	}
	sort.Strings(rels)
	ypk := map[string]string{}
	for _, rel := range rels {
		src := filepath.Join(*repo, rel)
		f, err := parser.ParseFile(fset, src, nil, parser.ParseComments)
		if err != nil {
			fmt.Fprintln(os.Stderr, "instr:", err)
			os.Exit(1)
		}
		curRel = rel
		if todo[rel][1] {
			if rewriteClock(f) == 0 {
				fmt.Fprintln(os.Stderr, "instr: no time.Now() found in", rel)
				os.Exit(1)
			}
		}
		if todo[rel][0] {
			for _, d := range f.Decls {
				if fd, ok := d.(*ast.FuncDecl); ok && fd.Body != nil {
					fd.Body.List = instrList(fd.Body.List)
				}
			}
			ypk[filepath.Dir(rel)] = f.Name.Name
		}
		var buf bytes.Buffer
		if err := format.Node(&buf, fset, f); err != nil {
			fmt.Fprintln(os.Stderr, "instr: format", rel, err)
			os.Exit(1)
		}
		dst := filepath.Join(*out, strings.ReplaceAll(rel, "/", "__"))
		must(os.WriteFile(dst, buf.Bytes(), 0o644))
		replace[src] = dst
	}
	// 2b. mode xorold: select the word-wise implementation (xor_old.go) instead of the crypto/subtle delegation by
	// rewriting only the //go:build lines of the current working-tree files (the gccgo tag cannot be used for this:
	// it also switches files inside the standard library and yields a crashing runtime).
	if *mode == "xorold" {
		for _, fc := range [][2]string{{"utils/xor/xor_old.go", "//go:build !arm"}, {"utils/xor/xor_generic.go", "//go:build ignore"}} {
			src := filepath.Join(*repo, fc[0])
			b, err := os.ReadFile(src)
			must(err)
			lines := strings.Split(string(b), "\n")
			n := 0
			for i, l := range lines {
				if strings.HasPrefix(l, "//go:build ") {
					lines[i] = fc[1]
					n++
				} else if strings.HasPrefix(l, "// +build ") {
					lines[i] = "//"
				}
			}
			if n != 1 {
				fmt.Fprintln(os.Stderr, "instr: expected exactly one //go:build line in", fc[0])
				os.Exit(1)
			}
			dst := filepath.Join(*out, strings.ReplaceAll(fc[0], "/", "__"))
			must(os.WriteFile(dst, []byte(strings.Join(lines, "\n")), 0o644))
			replace[src] = dst
		}
	}
	// 3. per package yield variable
	for dir, name := range ypk {
		dst := filepath.Join(*out, strings.ReplaceAll(dir, "/", "__")+"__zz_verif_yield.go")
		src := fmt.Sprintf("package %s\n\n// VerifYield is the scheduling hook called at instrumented synchronisation points (nil = no-op).\nvar VerifYield func(int)\n\nfunc verifYield(id int) {\n\tif f := VerifYield; f != nil {\n\t\tf(id)\n\t}\n}\n", name)
		must(os.WriteFile(dst, []byte(src), 0o644))
		replace[filepath.Join(*repo, dir, "zz_verif_yield.go")] = dst
	}
	b, _ := json.MarshalIndent(map[string]interface{}{"Replace": replace}, "", " ")
	must(os.WriteFile(filepath.Join(*out, "overlay.json"), b, 0o644))
	pb, _ := json.Marshal(points)
	must(os.WriteFile(filepath.Join(*out, "points.json"), pb, 0o644))
}

func must(err error) {
	if err != nil {
		fmt.Fprintln(os.Stderr, "instr:", err)
		os.Exit(1)
	}
}
