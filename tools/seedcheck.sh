#!/bin/bash
# usage: tools/seedcheck.sh <name> <worktree> <outdir> <demo test cmd (run inside worktree)> -- <check ids...>
# Confirms a seeded breaking change (demo fails with it / passes without it, package tests pass with it),
# runs the given checks against /repo with the patch applied, and undoes it straight afterwards.
export GOFLAGS=-mod=mod GOPROXY=off GOSUMDB=off GOTOOLCHAIN=local
name=$1; wt=$2; out=$3; demo=$4; shift 4; [ "$1" = "--" ] && shift
checks="$@"
echo "### $name"
cd $wt || exit 1
echo "--- demo WITH change (expected to fail)"; (eval "$demo") > /tmp/seed_demo_with.log 2>&1; rc1=$?; tail -3 /tmp/seed_demo_with.log; echo "rc=$rc1"
git apply -R $out/patch.diff || { echo "cannot reverse patch"; exit 1; }
echo "--- demo WITHOUT change (expected to pass)"; (eval "$demo") > /tmp/seed_demo_without.log 2>&1; rc2=$?; tail -3 /tmp/seed_demo_without.log; echo "rc=$rc2"
git apply $out/patch.diff
cd /repo && git apply $out/patch.diff || { echo "patch does not apply to /repo"; exit 1; }
pk=$(git diff --name-only | xargs -n1 dirname | sort -u | sed 's|^|./|' | tr '\n' ' ')
echo "--- existing tests of $pk with the change"; go test -count=1 $pk 2>&1 | tail -4
cd /verif
rm -rf .build/evidence.keep; cp -a evidence .build/evidence.keep   # seeded runs must not leave their evidence behind
for c in $checks; do echo "--- check $c quick"; ./check $c quick 2>&1 | tail -4 | cut -c1-300; echo "exit=$?"; done
rm -rf evidence; mv .build/evidence.keep evidence
git -C /repo checkout -- . ; git -C /repo clean -fdq ; git -C /repo status --short | head -3
echo "demo_with_rc=$rc1 demo_without_rc=$rc2"
