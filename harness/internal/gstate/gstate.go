// Package gstate (engine E6): decides "blocked" as a state predicate by parsing runtime.Stack(all).
package gstate

import (
	"regexp"
	"runtime"
	"strconv"
	"strings"
)

type G struct {
	ID     int64
	State  string   // text inside [...] up to the first comma
	Frames []string // function names, innermost first
	Raw    string
}

var hdr = regexp.MustCompile(`^goroutine (\d+) \[([^\],]+)`)

// Snapshot returns all goroutines.
func Snapshot() []G {
	n := 1 << 16
	var buf []byte
	for {
		buf = make([]byte, n)
		m := runtime.Stack(buf, true)
		if m < n {
			buf = buf[:m]
			break
		}
		n *= 2
	}
	var out []G
	for _, blk := range strings.Split(string(buf), "\n\n") {
		lines := strings.Split(blk, "\n")
		mm := hdr.FindStringSubmatch(lines[0])
		if mm == nil {
			continue
		}
		id, _ := strconv.ParseInt(mm[1], 10, 64)
		g := G{ID: id, State: mm[2], Raw: blk}
		for _, l := range lines[1:] {
			if strings.HasPrefix(l, "\t") || l == "" {
				continue
			}
			if strings.HasPrefix(l, "created by ") {
				l = "created by:" + strings.TrimPrefix(l, "created by ")
				if i := strings.Index(l, " in goroutine"); i > 0 {
					l = l[:i]
				}
				g.Frames = append(g.Frames, l)
				continue
			}
			if i := strings.LastIndex(l, "("); i > 0 {
				l = l[:i]
			}
			g.Frames = append(g.Frames, l)
		}
		// "semacquire" is also the state of a goroutine waiting for a runtime-internal semaphore (e.g. a GC start waiting
		// for the world semaphore that our own stop-the-world stack dump holds): that is not a program-level block.
		// Only a semacquire entered through package sync (WaitGroup.Wait, Once, ...) counts.
		if g.State == "semacquire" && (len(g.Frames) == 0 || !strings.HasPrefix(g.Frames[0], "sync.")) {
			g.State = "runtime-semacquire"
		}
		out = append(out, g)
	}
	return out
}

// Blocked reports whether the state is one of the runtime's blocking states. Unknown states count as running
// (fail closed: can only make a run inconclusive).
func Blocked(state string) bool {
	switch state {
	case "select", "chan receive", "chan send", "sync.Mutex.Lock", "sync.RWMutex.Lock", "sync.RWMutex.RLock",
		"semacquire", "sync.WaitGroup.Wait", "sleep", "IO wait", "sync.Cond.Wait", "select (no cases)",
		"chan receive (nil chan)", "chan send (nil chan)":
		return true
	}
	return false
}

// Has reports whether any non-"created by" frame contains sub.
func (g *G) Has(sub string) bool {
	for _, f := range g.Frames {
		if !strings.HasPrefix(f, "created by:") && strings.Contains(f, sub) {
			return true
		}
	}
	return false
}

// Top returns the innermost frame that contains sub ("" if none).
func (g *G) Innermost(sub string) string {
	for _, f := range g.Frames {
		if !strings.HasPrefix(f, "created by:") && strings.Contains(f, sub) {
			return f
		}
	}
	return ""
}

// ParkedIn returns the goroutines that are blocked and have a frame containing sub.
func ParkedIn(gs []G, sub string) []G {
	var out []G
	for _, g := range gs {
		if Blocked(g.State) && g.Has(sub) {
			out = append(out, g)
		}
	}
	return out
}

// With returns the goroutines (any state) having a frame containing sub.
func With(gs []G, sub string) []G {
	var out []G
	for _, g := range gs {
		if g.Has(sub) {
			out = append(out, g)
		}
	}
	return out
}

// GoID of the calling goroutine.
func GoID() int64 {
	var buf [64]byte
	n := runtime.Stack(buf[:], false)
	f := strings.Fields(string(buf[:n]))
	id, _ := strconv.ParseInt(f[1], 10, 64)
	return id
}
