// Package res is the result/evidence plumbing shared by all harness commands.
package res

import (
	"encoding/json"
	"fmt"
	"hash/fnv"
	"os"
	"strconv"
	"sort"
	"sync"
)

// Violation is one refuting observation.
type Violation struct {
	Key     string      `json:"key"`     // stable classifier, matched against known_findings.txt
	Desc    string      `json:"desc"`    // human readable
	Witness interface{} `json:"witness"` // replayable input / history / schedule
}

// Result is written by every harness child process.
type Result struct {
	mu           sync.Mutex
	Property     string                 `json:"property"`
	Evaluations  int64                  `json:"evaluations"`
	Distinct     int64                  `json:"distinct_nontrivial"`
	Rule         string                 `json:"rule"`
	Samples      []interface{}          `json:"samples"`
	Counters     map[string]int64       `json:"counters"`
	Extra        map[string]interface{} `json:"extra"`
	Violations   []Violation            `json:"violations"`
	Inconclusive []string               `json:"inconclusive"`
	Assumptions  []string               `json:"assumptions"`
	distinct     map[uint64]struct{}
	keySample    []string
}

func New(prop string) *Result {
	return &Result{Samples: []interface{}{}, Violations: []Violation{}, Inconclusive: []string{}, Assumptions: []string{}, Property: prop, Counters: map[string]int64{}, Extra: map[string]interface{}{}, distinct: map[uint64]struct{}{}}
}

func (r *Result) Count(k string, n int64) {
	r.mu.Lock()
	r.Counters[k] += n
	r.mu.Unlock()
}

func (r *Result) Max(k string, n int64) {
	r.mu.Lock()
	if n > r.Counters[k] {
		r.Counters[k] = n
	}
	r.mu.Unlock()
}

func (r *Result) Min(k string, n int64) {
	r.mu.Lock()
	if v, ok := r.Counters[k]; !ok || n < v {
		r.Counters[k] = n
	}
	r.mu.Unlock()
}

func (r *Result) Eval(n int64) {
	r.mu.Lock()
	r.Evaluations += n
	r.mu.Unlock()
}

// DistinctKey records a non-trivial case under a key; only distinct keys are counted.
func (r *Result) DistinctKey(k string) {
	h := fnv.New64a()
	h.Write([]byte(k))
	hv := h.Sum64()
	r.mu.Lock()
	if _, ok := r.distinct[hv]; !ok {
		if len(r.distinct) < 400000 {
			r.distinct[hv] = struct{}{}
			if len(r.keySample) < 8 {
				r.keySample = append(r.keySample, k)
			}
		}
	}
	r.mu.Unlock()
}

func (r *Result) Sample(s interface{}) {
	r.mu.Lock()
	if len(r.Samples) < 4 {
		r.Samples = append(r.Samples, s)
	}
	r.mu.Unlock()
}

func (r *Result) Violate(key, desc string, witness interface{}) {
	r.mu.Lock()
	if len(r.Violations) < 50 {
		r.Violations = append(r.Violations, Violation{key, desc, witness})
	} else {
		r.Counters["violations_truncated"]++
	}
	r.mu.Unlock()
}

func (r *Result) NViol() int {
	r.mu.Lock()
	defer r.mu.Unlock()
	return len(r.Violations)
}

func (r *Result) Inconc(s string) {
	r.mu.Lock()
	if len(r.Inconclusive) < 50 {
		r.Inconclusive = append(r.Inconclusive, s)
	}
	r.Counters["inconclusive"]++
	r.mu.Unlock()
}

// Write stores the result as JSON at path (argument of -out).
func (r *Result) Write(path string) {
	r.mu.Lock()
	defer r.mu.Unlock()
	r.Distinct = int64(len(r.distinct))
	r.Extra["distinct_keys_sample"] = r.keySample
	// export the distinct keys so the driver can merge across children
	keys := make([]string, 0, len(r.distinct))
	for k := range r.distinct {
		keys = append(keys, strconv.FormatUint(k, 36))
	}
	sort.Strings(keys)
	out := struct {
		*Result
		Keys []string `json:"distinct_keys"`
	}{r, keys}
	b, err := json.Marshal(out)
	if err != nil {
		fmt.Fprintln(os.Stderr, "res: marshal:", err)
		os.Exit(3)
	}
	if err := os.WriteFile(path, b, 0o644); err != nil {
		fmt.Fprintln(os.Stderr, "res: write:", err)
		os.Exit(3)
	}
}
