// Package sched (engine E3): a cooperative scheduler that serialises goroutines of the real code at
// source-inserted yield points and lets a strategy choose who runs next.
//
// One task holds the run token. At a yield point it hands the token back and waits; the strategy picks the next
// holder among the tasks waiting at yield points. A watchdog inspects the holder's goroutine state (runtime.Stack);
// only when the holder is in a runtime blocking state outside the scheduler is it marked blocked and the token passed
// on (state inspection, not a timeout, decides "blocked"). When nobody holds the token, nobody waits and every
// remaining task is blocked, the run is quiescent and the caller's oracle inspects the state.
//
// The scheduler is never used as race evidence (it serialises tasks).
package sched

import (
	"fmt"
	"math/rand"
	"runtime"
	"strings"
	"sync"
	"time"

	"verifharness/internal/gstate"
)

type Task struct {
	Name    string
	GoID    int64
	idx     int
	wake    chan struct{}
	waiting bool
	done    bool
	blocked bool
	lastPt  int
	prio    int
	auto    bool
}

// DebugSettle, when set, receives a line per task that kept a pick from settling.
var DebugSettle func(string)

type Outcome int

const (
	AllDone Outcome = iota
	Quiescent
	TimedOut
)

// Strategy chooses the next token holder. cands is ordered by task index; prev is the previous holder (may be nil or
// not among cands).
type Strategy interface {
	Pick(cands []*Task, prev *Task, step int) int
	NewTask(t *Task)
}

type Sched struct {
	mu       sync.Mutex
	byGo     map[int64]*Task
	tasks    []*Task
	holder   *Task
	prev     *Task
	strat    Strategy
	trace    []string
	steps    int
	lastAct  time.Time
	stop     bool
	started  bool
	Settle   bool // wait until every managed task is at a yield point or blocked before each pick (determinism for DFS/replay)
	AutoReg  bool // goroutines that reach a yield point without having been started through Go become tasks
	MaxSteps int
	points   map[int]bool
	nauto    int
	ignore   map[int64]bool
	picking  bool
	Diverged bool
	overrun  bool
}

func New(st Strategy) *Sched {
	// the goroutine that builds the scheduler (the harness driver) is never scheduled
	return &Sched{byGo: map[int64]*Task{}, strat: st, lastAct: time.Now(), AutoReg: true, MaxSteps: 5000, points: map[int]bool{}, ignore: map[int64]bool{gstate.GoID(): true}}
}

// Go starts fn as a scheduled task; it first waits for its turn.
func (s *Sched) Go(name string, fn func()) {
	t := &Task{Name: name, wake: make(chan struct{}, 1)}
	s.mu.Lock()
	t.idx = len(s.tasks)
	s.tasks = append(s.tasks, t)
	s.strat.NewTask(t)
	s.mu.Unlock()
	go func() {
		id := gstate.GoID()
		s.mu.Lock()
		t.GoID = id
		s.byGo[id] = t
		t.waiting = true
		s.mu.Unlock()
		<-t.wake
		fn()
		s.mu.Lock()
		t.done = true
		if s.holder == t {
			s.holder = nil
			s.pickLocked()
		}
		s.mu.Unlock()
	}()
}

func (s *Sched) candidates() []*Task {
	var c []*Task
	for _, t := range s.tasks {
		if t.waiting && !t.done {
			c = append(c, t)
		}
	}
	return c
}

// pickLocked grants the token to one waiting task, if any.
func (s *Sched) pickLocked() {
	if s.stop || s.picking {
		return
	}
	if s.Settle {
		// settleLocked releases the lock while it waits: keep other pick attempts out
		s.picking = true
		s.settleLocked()
		s.picking = false
		if s.stop || s.holder != nil {
			return
		}
	}
	c := s.candidates()
	if len(c) == 0 {
		s.holder = nil
		return
	}
	if s.steps >= s.MaxSteps {
		s.overrun = true
		s.holder = nil
		return
	}
	i := s.strat.Pick(c, s.prev, s.steps)
	if i < 0 || i >= len(c) {
		i = 0
		s.Diverged = true
	}
	t := c[i]
	s.prev = t
	t.waiting = false
	t.blocked = false
	s.holder = t
	s.lastAct = time.Now()
	s.steps++
	s.trace = append(s.trace, fmt.Sprintf("%s@%d", t.Name, t.lastPt))
	t.wake <- struct{}{}
}

// settleLocked spins (releasing the lock) until no managed task is running free.
func (s *Sched) settleLocked() {
	t0 := time.Now()
	for {
		free := false
		var gs map[int64]string
		for _, t := range s.tasks {
			if t.done || t.waiting || t.GoID == 0 {
				if !t.done && t.GoID == 0 {
					free = true
				}
				continue
			}
			if gs == nil {
				gs = map[int64]string{}
				for _, g := range gstate.Snapshot() {
					st := g.State
					if g.Has("internal/sched.(*Sched).Yield") {
						st = "in-scheduler" // about to wait at a yield point
					}
					gs[g.ID] = st
				}
			}
			st, ok := gs[t.GoID]
			if ok && !gstate.Blocked(st) {
				free = true
			}
		}
		if !free {
			return
		}
		if time.Since(t0) > 20*time.Millisecond {
			s.Diverged = true
			if DebugSettle != nil {
				for _, t := range s.tasks {
					if !t.done && !t.waiting {
						DebugSettle(fmt.Sprintf("%s goid=%d state=%q", t.Name, t.GoID, gs[t.GoID]))
					}
				}
			}
			return
		}
		s.mu.Unlock()
		runtime.Gosched()
		s.mu.Lock()
	}
}

// Yield is installed as the instrumentation callback of the instrumented packages.
func (s *Sched) Yield(id int) {
	g := gstate.GoID()
	s.mu.Lock()
	if s.stop {
		s.mu.Unlock()
		return
	}
	t := s.byGo[g]
	if t == nil {
		if !s.AutoReg || !s.started || s.ignore[g] {
			s.mu.Unlock()
			return
		}
		s.nauto++
		t = &Task{Name: fmt.Sprintf("lib%d", s.nauto), GoID: g, wake: make(chan struct{}, 1), idx: len(s.tasks), auto: true}
		s.tasks = append(s.tasks, t)
		s.byGo[g] = t
		s.strat.NewTask(t)
	}
	s.points[id] = true
	t.lastPt = id
	t.waiting = true
	if s.holder == t || s.holder == nil {
		s.holder = nil
		s.pickLocked()
	}
	s.mu.Unlock()
	<-t.wake
}

// autoDone marks auto-registered tasks whose goroutine has exited.
func (s *Sched) reapLocked(gs map[int64]string) {
	for _, t := range s.tasks {
		if t.auto && !t.done && !t.waiting {
			if _, alive := gs[t.GoID]; !alive {
				t.done = true
				if s.holder == t {
					s.holder = nil
				}
			}
		}
	}
}

func snapStates() map[int64]string {
	gs := map[int64]string{}
	for _, g := range gstate.Snapshot() {
		st := g.State
		if g.Has("internal/sched.(*Sched).Yield") || g.Has("internal/sched.(*Sched).Go.func1") && st == "chan receive" && len(g.Frames) <= 3 {
			st = "yield"
		}
		gs[g.ID] = st
	}
	return gs
}

// Run drives the watchdog until every Go-started task is done, the system is quiescent, or maxWall passes.
func (s *Sched) Run(maxWall time.Duration) Outcome {
	s.mu.Lock()
	for _, t := range s.tasks { // wait for registration
		for t.GoID == 0 {
			s.mu.Unlock()
			time.Sleep(time.Microsecond)
			s.mu.Lock()
		}
	}
	s.started = true
	s.pickLocked()
	s.mu.Unlock()
	t0 := time.Now()
	quiet := 0
	for {
		time.Sleep(30 * time.Microsecond)
		s.mu.Lock()
		all := true
		for _, t := range s.tasks {
			if !t.done && !t.auto {
				all = false
			}
		}
		if all && s.holder == nil && len(s.candidates()) == 0 {
			s.mu.Unlock()
			return AllDone
		}
		if s.overrun {
			s.mu.Unlock()
			return TimedOut
		}
		h := s.holder
		if h != nil && time.Since(s.lastAct) > 80*time.Microsecond {
			gs := snapStates()
			s.reapLocked(gs)
			if st, ok := gs[h.GoID]; s.holder == h && ok && gstate.Blocked(st) {
				h.blocked = true
				s.holder = nil
				s.pickLocked()
			} else if s.holder == nil {
				s.pickLocked()
			}
		}
		if s.holder == nil {
			s.pickLocked()
			if s.holder == nil {
				// nobody waiting: are all remaining tasks blocked (stable)?
				gs := snapStates()
				s.reapLocked(gs)
				allBlocked := true
				for _, t := range s.tasks {
					if t.done {
						continue
					}
					if t.waiting {
						allBlocked = false
						continue
					}
					st, ok := gs[t.GoID]
					if ok && !gstate.Blocked(st) {
						allBlocked = false
					}
				}
				if allBlocked && len(s.candidates()) == 0 {
					quiet++
					if quiet >= 3 {
						s.mu.Unlock()
						return Quiescent
					}
				} else {
					quiet = 0
				}
			} else {
				quiet = 0
			}
		} else {
			quiet = 0
		}
		s.mu.Unlock()
		if time.Since(t0) > maxWall {
			return TimedOut
		}
	}
}

// Resume continues scheduling after a quiescent point (e.g. after the harness changed something from outside).
func (s *Sched) Resume(maxWall time.Duration) Outcome { return s.Run(maxWall) }

func (s *Sched) Trace() []string {
	s.mu.Lock()
	defer s.mu.Unlock()
	return append([]string{}, s.trace...)
}

func (s *Sched) Steps() int {
	s.mu.Lock()
	defer s.mu.Unlock()
	return s.steps
}

func (s *Sched) PointsHit() []int {
	s.mu.Lock()
	defer s.mu.Unlock()
	var o []int
	for p := range s.points {
		o = append(o, p)
	}
	return o
}

// Pending returns the tasks that are not done.
func (s *Sched) Pending() []*Task {
	s.mu.Lock()
	defer s.mu.Unlock()
	var out []*Task
	for _, t := range s.tasks {
		if !t.done {
			out = append(out, t)
		}
	}
	return out
}

// Stop turns all yield points into no-ops and releases every waiting task.
func (s *Sched) Stop() {
	s.mu.Lock()
	s.stop = true
	for _, t := range s.tasks {
		if t.waiting {
			t.waiting = false
			select {
			case t.wake <- struct{}{}:
			default:
			}
		}
	}
	s.mu.Unlock()
}

// ---------- strategies ----------

// Random: uniform choice.
type Random struct{ Rng *rand.Rand }

func (r *Random) Pick(c []*Task, prev *Task, step int) int { return r.Rng.Intn(len(c)) }
func (r *Random) NewTask(t *Task)                           {}

// PCT: random priorities, d-1 priority change points among the first k steps.
type PCT struct {
	Rng    *rand.Rand
	change map[int]bool
	low    int
}

func NewPCT(rng *rand.Rand, d, k int) *PCT {
	p := &PCT{Rng: rng, change: map[int]bool{}}
	for i := 0; i < d-1; i++ {
		p.change[1+rng.Intn(k)] = true
	}
	return p
}

func (p *PCT) NewTask(t *Task) { t.prio = 1 + p.Rng.Intn(1000000) }

func (p *PCT) Pick(c []*Task, prev *Task, step int) int {
	if p.change[step] && prev != nil {
		p.low--
		prev.prio = p.low
	}
	best := 0
	for i, t := range c {
		if t.prio > c[best].prio {
			best = i
		}
	}
	return best
}

// DFS: follows a prefix of choices, then the non-preemptive default; records the alternatives for backtracking.
type DFS struct {
	Prefix  []int
	Bound   int // max preemptions
	Choices []Choice
	pre     int
}

type Choice struct {
	Chosen int
	N      int
	Pre    []bool // Pre[i]: choosing i is a preemption
	PreSoFar int
}

func (d *DFS) NewTask(t *Task) {}

func (d *DFS) Pick(c []*Task, prev *Task, step int) int {
	def := 0
	prevIn := -1
	for i, t := range c {
		if t == prev {
			prevIn = i
		}
	}
	if prevIn >= 0 {
		def = prevIn
	}
	ch := Choice{N: len(c), Pre: make([]bool, len(c)), PreSoFar: d.pre}
	for i := range c {
		ch.Pre[i] = prevIn >= 0 && i != prevIn
	}
	k := len(d.Choices)
	pick := def
	if k < len(d.Prefix) {
		pick = d.Prefix[k]
		if pick >= len(c) {
			pick = def
		}
	}
	if ch.Pre[pick] {
		d.pre++
	}
	ch.Chosen = pick
	d.Choices = append(d.Choices, ch)
	return pick
}

// Next computes the next prefix in DFS order under the preemption bound; nil when the space is exhausted.
func (d *DFS) Next() []int {
	for k := len(d.Choices) - 1; k >= 0; k-- {
		ch := d.Choices[k]
		def := 0
		for i := range ch.Pre {
			if !ch.Pre[i] && anyPre(ch.Pre) {
				def = i
			}
		}
		// enumeration order at a choice point: default first, then the others in index order
		order := []int{def}
		for i := 0; i < ch.N; i++ {
			if i != def {
				order = append(order, i)
			}
		}
		pos := 0
		for j, v := range order {
			if v == ch.Chosen {
				pos = j
			}
		}
		for j := pos + 1; j < len(order); j++ {
			alt := order[j]
			pre := ch.PreSoFar
			if ch.Pre[alt] {
				pre++
			}
			if pre <= d.Bound {
				np := make([]int, k+1)
				for i := 0; i < k; i++ {
					np[i] = d.Choices[i].Chosen
				}
				np[k] = alt
				return np
			}
		}
	}
	return nil
}

func anyPre(p []bool) bool {
	for _, b := range p {
		if b {
			return true
		}
	}
	return false
}

// Forced replays a recorded trace ("name@point" per step); falls back to the first candidate when the wanted task
// is not waiting (Diverged is reported by the caller comparing traces).
type Forced struct {
	Want []string
	Miss int
}

func (f *Forced) NewTask(t *Task) {}

func (f *Forced) Pick(c []*Task, prev *Task, step int) int {
	if step < len(f.Want) {
		name := f.Want[step]
		if i := strings.Index(name, "@"); i >= 0 {
			name = name[:i]
		}
		for i, t := range c {
			if t.Name == name {
				return i
			}
		}
		f.Miss++
	}
	return 0
}
