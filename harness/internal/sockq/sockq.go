// Package sockq inspects the UDP sockets of the current process (Linux): which file descriptor is the unconnected UDP
// socket bound to a given local port, and how many bytes are waiting in its receive queue.
package sockq

import (
	"os"
	"strconv"
	"strings"
	"syscall"
	"unsafe"
)

// Find returns the fd of this process' unconnected UDP/IPv4 socket bound to port (-1 if none).
func Find(port int) int {
	ents, err := os.ReadDir("/proc/self/fd")
	if err != nil {
		panic(err)
	}
	for _, e := range ents {
		fd, err := strconv.Atoi(e.Name())
		if err != nil {
			continue
		}
		sa, err := syscall.Getsockname(fd)
		if err != nil {
			continue
		}
		if a4, ok := sa.(*syscall.SockaddrInet4); ok && a4.Port == port {
			if t, err := syscall.GetsockoptInt(fd, syscall.SOL_SOCKET, syscall.SO_TYPE); err == nil && t == syscall.SOCK_DGRAM {
				if _, err := syscall.Getpeername(fd); err != nil { // unconnected: not one of the harness' DialUDP clients
					return fd
				}
			}
		}
	}
	return -1
}

// Pending returns the size of the next datagram waiting in the receive queue of the socket bound to port
// (0 = queue empty; ok=false when the socket was not found).
func Pending(port int) (int, bool) {
	fd := Find(port)
	if fd < 0 {
		return 0, false
	}
	var n int32
	const fionread = 0x541B
	if _, _, e := syscall.Syscall(syscall.SYS_IOCTL, uintptr(fd), fionread, uintptr(unsafe.Pointer(&n))); e != 0 {
		return 0, false
	}
	return int(n), true
}

// SetRcvBuf enlarges the kernel receive buffer of the socket bound to port (SO_RCVBUFFORCE when permitted, else SO_RCVBUF)
// and returns the size now in force (0 when the socket was not found).
func SetRcvBuf(port, bytes int) int {
	fd := Find(port)
	if fd < 0 {
		return 0
	}
	const soRcvbufForce = 33
	if err := syscall.SetsockoptInt(fd, syscall.SOL_SOCKET, soRcvbufForce, bytes); err != nil {
		_ = syscall.SetsockoptInt(fd, syscall.SOL_SOCKET, syscall.SO_RCVBUF, bytes)
	}
	n, _ := syscall.GetsockoptInt(fd, syscall.SOL_SOCKET, syscall.SO_RCVBUF)
	return n
}

// Drops returns the kernel's count of datagrams dropped at the socket bound to port (receive buffer full), read from
// the socket's own line of /proc/net/udp (matched by inode); ok=false when it cannot be determined.
func Drops(port int) (int, bool) {
	fd := Find(port)
	if fd < 0 {
		return 0, false
	}
	var st syscall.Stat_t
	if err := syscall.Fstat(fd, &st); err != nil {
		return 0, false
	}
	b, err := os.ReadFile("/proc/net/udp")
	if err != nil {
		return 0, false
	}
	ino := strconv.FormatUint(st.Ino, 10)
	for _, line := range strings.Split(string(b), "\n") {
		f := strings.Fields(line)
		if len(f) >= 13 && f[9] == ino {
			d, err := strconv.Atoi(f[12])
			return d, err == nil
		}
	}
	return 0, false
}
