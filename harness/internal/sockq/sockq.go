// Package sockq inspects the UDP sockets of the current process (Linux): which file descriptor is the unconnected UDP
// socket bound to a given local port, and how many bytes are waiting in its receive queue.
package sockq

import (
	"os"
	"strconv"
	"syscall"
	"unsafe"
)

// Find returns the fd of this process' unconnected UDP/IPv4 socket bound to port (-1 if none).
func Find(port int) int {
	ents, err := os.ReadDir("/proc/self/fd")
	if err != nil {
		panic(err)
	}
	for _, e := range ents {
		fd, err := strconv.Atoi(e.Name())
		if err != nil {
			continue
		}
		sa, err := syscall.Getsockname(fd)
		if err != nil {
			continue
		}
		if a4, ok := sa.(*syscall.SockaddrInet4); ok && a4.Port == port {
			if t, err := syscall.GetsockoptInt(fd, syscall.SOL_SOCKET, syscall.SO_TYPE); err == nil && t == syscall.SOCK_DGRAM {
				if _, err := syscall.Getpeername(fd); err != nil { // unconnected: not one of the harness' DialUDP clients
					return fd
				}
			}
		}
	}
	return -1
}

// Pending returns the size of the next datagram waiting in the receive queue of the socket bound to port
// (0 = queue empty; ok=false when the socket was not found).
func Pending(port int) (int, bool) {
	fd := Find(port)
	if fd < 0 {
		return 0, false
	}
	var n int32
	const fionread = 0x541B
	if _, _, e := syscall.Syscall(syscall.SYS_IOCTL, uintptr(fd), fionread, uintptr(unsafe.Pointer(&n))); e != 0 {
		return 0, false
	}
	return int(n), true
}
