// Package vn: small helpers shared by the vnet harness commands.
package vn

import (
	"crypto/sha1"
	"encoding/binary"
	"encoding/hex"
	"net"

	"github.com/pion/logging"
	"github.com/pion/transport/v3/vnet"
)

// Silent returns a logger factory that prints nothing.
func Silent() logging.LoggerFactory {
	lf := logging.NewDefaultLoggerFactory()
	lf.DefaultLogLevel = logging.LogLevelDisabled
	return lf
}

func UDP(ip string, port int) *net.UDPAddr { return &net.UDPAddr{IP: net.ParseIP(ip).To4(), Port: port} }

// Payload builds a payload of n bytes carrying id in its first 8 bytes when it fits; filler from id.
func Payload(id uint64, n int) []byte {
	b := make([]byte, n)
	x := id*0x9E3779B97F4A7C15 + 1
	for i := range b {
		x ^= x << 13
		x ^= x >> 7
		x ^= x << 17
		b[i] = byte(x)
	}
	if n >= 8 {
		binary.BigEndian.PutUint64(b, id)
	}
	return b
}

func Hash(b []byte) string {
	h := sha1.Sum(b)
	return hex.EncodeToString(h[:6])
}

// Seen is what a sink records per forwarded chunk.
type Seen struct {
	Tag  string
	Src  string
	Dst  string
	Hash string
	Len  int
	Ptr  vnet.Chunk
}

func Snap(c vnet.Chunk) Seen {
	return Seen{Tag: c.Tag(), Src: c.SourceAddr().String(), Dst: c.DestinationAddr().String(), Hash: Hash(c.UserData()), Len: len(c.UserData()), Ptr: c}
}

// PayloadID returns the id carried in the first 8 bytes of a payload built by Payload (0 if shorter).
func PayloadID(b []byte) uint64 {
	if len(b) < 8 {
		return 0
	}
	return binary.BigEndian.Uint64(b)
}
