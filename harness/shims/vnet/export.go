//go:build verif

package vnet

import (
	"net"
	"sync"
	"time"

	"github.com/pion/logging"
	"github.com/pion/transport/v3"
)

var (
	verifNowMu sync.RWMutex
	verifNowFn = time.Now //nolint:gochecknoglobals
)

func verifNow() time.Time {
	verifNowMu.RLock()
	f := verifNowFn
	verifNowMu.RUnlock()

	return f()
}

// VerifSetNow installs the clock used by the NAT (nil restores time.Now).
func VerifSetNow(f func() time.Time) {
	verifNowMu.Lock()
	if f == nil {
		f = time.Now
	}
	verifNowFn = f
	verifNowMu.Unlock()
}

// VerifNIC is a NIC whose inbound path is a harness callback.
type VerifNIC struct {
	OnChunk   func(Chunk)
	StaticIPs []net.IP
	ifc       *transport.Interface
	router    *Router
}

func (n *VerifNIC) getInterface(string) (*transport.Interface, error) {
	if n.ifc == nil {
		n.ifc = transport.NewInterface(net.Interface{Index: 2, MTU: 1500, Name: "eth0", Flags: net.FlagUp})
	}

	return n.ifc, nil
}
func (n *VerifNIC) onInboundChunk(c Chunk)  { n.OnChunk(c) }
func (n *VerifNIC) getStaticIPs() []net.IP  { return n.StaticIPs }
func (n *VerifNIC) setRouter(r *Router) error { n.router = r; return nil }

// Addrs returns the addresses the router assigned to this NIC.
func (n *VerifNIC) Addrs() []net.Addr {
	if n.ifc == nil {
		return nil
	}
	a, _ := n.ifc.Addrs()

	return a
}

// Send pushes a chunk into the router this NIC is attached to.
func (n *VerifNIC) Send(c Chunk) { n.router.push(c) }

func VerifNewChunkUDP(src, dst *net.UDPAddr, payload []byte) Chunk {
	c := newChunkUDP(src, dst)
	if payload != nil {
		c.userData = append([]byte{}, payload...)
	}

	return c
}

func VerifInject(nic NIC, c Chunk) { nic.onInboundChunk(c) }

type VerifNAT struct{ n *networkAddressTranslator }

func VerifNewNAT(t NATType, mapped, local []net.IP, lf logging.LoggerFactory) (*VerifNAT, error) {
	n, err := newNAT(&natConfig{name: "verif", natType: t, mappedIPs: mapped, localIPs: local, loggerFactory: lf})
	if err != nil {
		return nil, err
	}

	return &VerifNAT{n}, nil
}
func (v *VerifNAT) Out(c Chunk) (Chunk, error) { return v.n.translateOutbound(c) }
func (v *VerifNAT) In(c Chunk) (Chunk, error)  { return v.n.translateInbound(c) }

// Sizes reports the number of entries in the two mapping tables (evidence only).
func (v *VerifNAT) Sizes() (int, int) {
	v.n.mutex.RLock()
	defer v.n.mutex.RUnlock()

	return len(v.n.outboundMap), len(v.n.inboundMap)
}

// VerifAddrs returns the addresses assigned to the router's WAN interface (eth0).
func (r *Router) VerifAddrs() []net.IP {
	ifc, err := r.getInterface("eth0")
	if err != nil {
		return nil
	}
	addrs, _ := ifc.Addrs()
	var out []net.IP
	for _, a := range addrs {
		if n, ok := a.(*net.IPNet); ok {
			out = append(out, n.IP)
		}
	}

	return out
}
