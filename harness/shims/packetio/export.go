//go:build verif

package packetio

// VerifState reports the ring layout under the buffer's own mutex (coverage steering and evidence only).
func (b *Buffer) VerifState() (head, tail, capacity, count int) {
	b.mutex.Lock()
	defer b.mutex.Unlock()

	return b.head, b.tail, len(b.data), b.count
}
