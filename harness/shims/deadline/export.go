//go:build verif

package deadline

import "time"

// VerifTimer is structurally identical to the package's unexported timer interface.
type VerifTimer interface {
	Stop() bool
	Reset(time.Duration) bool
}

// VerifNewWithTimer builds a Deadline whose timer is supplied by the harness and returns the
// callback the runtime timer would invoke on expiry.
func VerifNewWithTimer(t VerifTimer) (*Deadline, func()) {
	d := New()
	d.timer = t

	return d, d.timeout
}
