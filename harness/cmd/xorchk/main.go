// Command xorchk: bounded-exhaustive reference monitor for xor.XorBytes (C20).
// Built twice: default tags (crypto/subtle delegation) and -tags gccgo (word-wise unsafe loops of xor_old.go),
// optionally with -race (checkptr) / -asan so that out-of-allocation word stores are caught by the sanitizer
// and in-allocation ones by the guard zones.
package main

import (
	"encoding/json"
	"flag"
	"fmt"
	"math/rand"
	"os"

	"github.com/pion/transport/v3/utils/xor"
	"verifharness/internal/res"
)

const guard = 16

type xcase struct {
	La, Lb, Ld int
	Oa, Ob, Od int
	Alias      string
	Pattern    int
	Seed       int64
	Spare      bool // slices are windows into larger arrays (cap > len) instead of cap == len
	Arena      bool // dst, a and b are disjoint windows of ONE array (a caller's arena); with Spare their capacities end at the same byte
}

func fill(b []byte, pattern int, rng *rand.Rand) {
	for i := range b {
		switch pattern {
		case 0:
			b[i] = byte(rng.Intn(256))
		case 1:
			b[i] = 0
		case 2:
			b[i] = 0xFF
		}
	}
}

// runCase returns "" or a description of the deviation.
func runCase(c xcase) string {
	rng := rand.New(rand.NewSource(c.Seed))
	// three backing arrays, 8-aligned bases are likely for make([]byte) >= 8; offsets choose alignment
	mk := func(l, off int) ([]byte, []byte) {
		arr := make([]byte, guard+off+l+guard+8)
		fill(arr, c.Pattern, rng)
		if c.Spare {
			return arr, arr[guard+off : guard+off+l]
		}
		return arr, arr[guard+off : guard+off+l : guard+off+l]
	}
	if c.Arena {
		return runArena(c, rng)
	}
	arrA, a := mk(c.La, c.Oa)
	arrB, b := mk(c.Lb, c.Ob)
	var arrD, dst []byte
	switch c.Alias {
	case "dst==a":
		arrD, dst = arrA, a
	case "dst==b":
		arrD, dst = arrB, b
	default:
		arrD, dst = mk(c.Ld, c.Od)
	}
	cpA := append([]byte{}, arrA...)
	cpB := append([]byte{}, arrB...)
	cpD := append([]byte{}, arrD...)
	a0 := append([]byte{}, a...)
	b0 := append([]byte{}, b...)
	n := c.La
	if c.Lb < n {
		n = c.Lb
	}
	got := xor.XorBytes(dst, a, b)
	if got != n {
		return fmt.Sprintf("returned %d, want %d", got, n)
	}
	for i := 0; i < n; i++ {
		if dst[i] != a0[i]^b0[i] {
			return fmt.Sprintf("dst[%d]=%#x want %#x", i, dst[i], a0[i]^b0[i])
		}
	}
	// everything else unchanged
	chk := func(name string, arr, cp []byte, lo, hi int) string { // [lo,hi) may have changed
		for i := range arr {
			if (i < lo || i >= hi) && arr[i] != cp[i] {
				return fmt.Sprintf("%s backing byte %d (slice index %d) changed", name, i, i-lo)
			}
		}
		return ""
	}
	dLo := guard + c.Od
	switch c.Alias {
	case "dst==a":
		dLo = guard + c.Oa
	case "dst==b":
		dLo = guard + c.Ob
	}
	if s := chk("dst", arrD, cpD, dLo, dLo+n); s != "" {
		return s
	}
	if c.Alias != "dst==a" {
		if s := chk("a", arrA, cpA, 0, 0); s != "" {
			return s
		}
	}
	if c.Alias != "dst==b" {
		if s := chk("b", arrB, cpB, 0, 0); s != "" {
			return s
		}
	}
	return ""
}

// runArena: the three slices are disjoint windows of one array, in the order a, dst, b (dst==a / dst==b as asked).
func runArena(c xcase, rng *rand.Rand) string {
	span := func(l, off int) int { return guard + off + l + guard }
	arena := make([]byte, span(c.La, c.Oa)+span(c.Ld, c.Od)+span(c.Lb, c.Ob)+8)
	fill(arena, c.Pattern, rng)
	win := func(base, l, off int) (int, []byte) {
		lo := base + guard + off
		if c.Spare {
			return lo, arena[lo : lo+l]
		}
		return lo, arena[lo : lo+l : lo+l]
	}
	_, a := win(0, c.La, c.Oa)
	dLo, dst := win(span(c.La, c.Oa), c.Ld, c.Od)
	bLo, b := win(span(c.La, c.Oa)+span(c.Ld, c.Od), c.Lb, c.Ob)
	switch c.Alias {
	case "dst==a":
		dLo, dst = guard+c.Oa, a
	case "dst==b":
		dLo, dst = bLo, b
	}
	cp := append([]byte{}, arena...)
	a0 := append([]byte{}, a...)
	b0 := append([]byte{}, b...)
	n := c.La
	if c.Lb < n {
		n = c.Lb
	}
	got := xor.XorBytes(dst, a, b)
	if got != n {
		return fmt.Sprintf("arena: returned %d, want %d", got, n)
	}
	for i := 0; i < n; i++ {
		if dst[i] != a0[i]^b0[i] {
			return fmt.Sprintf("arena: dst[%d]=%#x want %#x", i, dst[i], a0[i]^b0[i])
		}
	}
	for i := range arena {
		if (i < dLo || i >= dLo+n) && arena[i] != cp[i] {
			return fmt.Sprintf("arena: byte %d of the shared array changed (dst[:n] is %d..%d)", i, dLo, dLo+n)
		}
	}
	return ""
}

func main() {
	tier := flag.String("tier", "quick", "")
	seed := flag.Int64("seed", 1, "")
	shard := flag.Int("shard", 0, "")
	nshard := flag.Int("nshard", 1, "")
	out := flag.String("out", "", "")
	NQ := flag.Int("nq", 0, "max length in the quick tier (default 100)")
	NT := flag.Int("nt", 0, "max length in the thorough tier (default 160)")
	impl := flag.String("impl", "default", "label of the build flavour (evidence only)")
	noLong := flag.Bool("nolong", false, "skip the sparse set of long lengths")
	replay := flag.String("replay", "", "")
	flag.Parse()
	r := res.New("C20")
	if *replay != "" {
		b, _ := os.ReadFile(*replay)
		var w struct {
			Witness xcase `json:"witness"`
		}
		if err := json.Unmarshal(b, &w); err != nil {
			fmt.Fprintln(os.Stderr, err)
			os.Exit(2)
		}
		r.Eval(1)
		if s := runCase(w.Witness); s != "" {
			r.Violate(*impl+":wrong-result", s, w.Witness)
		}
		r.Write(*out)
		return
	}
	r.Rule = "bounded-exhaustive: every (len a, len b) in 0..N x 0..N plus every pair of a sparse set of 25 long lengths (block sizes 128, 256, 512, 1024, 4096 +-1 and 10 PRNG-chosen ones up to 5000; not in the sanitizer builds), start offsets of dst/a/b in 0..7 (all 8 for each slice with the others drawn from the PRNG, plus all 8 equal-offset triples), contents PRNG/0x00/0xFF, aliasing distinct|dst==a|dst==b, dst length min..min+9, slices with cap == len or as windows into larger arrays (spare capacity behind them), in a quarter of the cases all three as disjoint windows of one shared array; oracle = bytewise XOR from copies + unchanged guard zones; distinct = (len a, len b, alias, offset triple) combinations"
	r.Assumptions = []string{"xor_arm.go/.s cannot execute on this amd64 sandbox: not covered", "partial overlaps other than dst==a / dst==b are outside the statement"}
	n := 100
	if *tier == "thorough" {
		n = 160
	}
	if *tier == "thorough" && *NT > 0 {
		n = *NT
	} else if *tier != "thorough" && *NQ > 0 {
		n = *NQ
	}
	rng := rand.New(rand.NewSource(*seed + int64(*shard)*101))
	// lengths: every pair in 0..n x 0..n, then every pair of a sparse set of long lengths (around the block sizes an
	// implementation is likely to special-case, plus PRNG-chosen ones up to 5000; the same set in every shard)
	lrng := rand.New(rand.NewSource(*seed*977 + 5))
	var long []int
	for _, b := range []int{128, 256, 512, 1024, 4096} {
		for d := -1; d <= 1; d++ {
			if b+d > n {
				long = append(long, b+d)
			}
		}
	}
	for k := 0; k < 10; k++ {
		long = append(long, n+1+lrng.Intn(5000-n))
	}
	if *noLong {
		long = nil
	}
	type lp struct{ la, lb int }
	var pairs []lp
	for la := 0; la <= n; la++ {
		for lb := 0; lb <= n; lb++ {
			pairs = append(pairs, lp{la, lb})
		}
	}
	for _, la := range long {
		for _, lb := range long {
			pairs = append(pairs, lp{la, lb})
		}
		pairs = append(pairs, lp{la, 7}, lp{7, la})
	}
	r.Max("max_len_sparse", int64(5000))
	idx := 0
	for _, pr := range pairs {
		la, lb := pr.la, pr.lb
		{
			idx++
			if idx%*nshard != *shard {
				continue
			}
			mn := la
			if lb < mn {
				mn = lb
			}
			for _, alias := range []string{"distinct", "dst==a", "dst==b"} {
				if alias == "dst==a" && la < mn || alias == "dst==b" && lb < mn {
					continue
				}
				for off := 0; off < 8; off++ {
					for which := 0; which < 4; which++ {
						c := xcase{La: la, Lb: lb, Ld: mn + rng.Intn(10), Alias: alias, Pattern: rng.Intn(4) % 3, Seed: rng.Int63(), Spare: rng.Intn(2) == 0, Arena: rng.Intn(4) == 0}
						c.Oa, c.Ob, c.Od = rng.Intn(8), rng.Intn(8), rng.Intn(8)
						switch which {
						case 0:
							c.Oa = off
						case 1:
							c.Ob = off
						case 2:
							c.Od = off
						case 3: // all three slices with the same alignment (word-aligned fast paths need all of them aligned)
							c.Oa, c.Ob, c.Od = off, off, off
						}
						r.Eval(1)
						r.DistinctKey(fmt.Sprintf("%d/%d/%s/%d%d%d", la, lb, alias, c.Oa, c.Ob, c.Od))
						if la == 9 && lb == 17 && off == 3 && which == 0 && alias == "distinct" {
							r.Sample(c)
						}
						if s := runCase(c); s != "" {
							if r.NViol() < 5 {
								r.Violate(*impl+":wrong-result", fmt.Sprintf("XorBytes la=%d lb=%d ld=%d offs=%d/%d/%d %s: %s", c.La, c.Lb, c.Ld, c.Oa, c.Ob, c.Od, c.Alias, s), c)
							}
						}
					}
				}
			}
		}
	}
	r.Count("max_len", 0)
	r.Max("max_len", int64(n))
	r.Count("calls_"+*impl, r.Evaluations)
	r.Write(*out)
}
