// Command rdl: read-deadline monitor (C10) for packetio.Buffer, dpipe, udp.Conn, vnet UDPConn and test.Bridge endpoints.
package main

import (
	"bytes"
	"encoding/json"
	"errors"
	"flag"
	"fmt"
	"math/rand"
	"net"
	"os"
	"strings"
	"sync"
	"time"

	"github.com/pion/transport/v3/dpipe"
	"github.com/pion/transport/v3/packetio"
	"github.com/pion/transport/v3/test"
	"github.com/pion/transport/v3/udp"
	"github.com/pion/transport/v3/vnet"
	"verifharness/internal/gstate"
	"verifharness/internal/res"
	"verifharness/internal/sockq"
	"verifharness/internal/vn"
)

// ---------- subjects ----------

type subject interface {
	Raw() interface{} // the connection object (may offer SetDeadline / SetWriteDeadline as well)
	SetReadDeadline(t time.Time) error
	Read(p []byte) (int, error)
	Deliver(data []byte) bool // true when arrival at the reading end is confirmed
	ReadFrame() string        // function name a parked reader shows in its stack
	Close()
}

type sBuffer struct{ b *packetio.Buffer }

func (s *sBuffer) Raw() interface{}                  { return s.b }
func (s *sBuffer) SetReadDeadline(t time.Time) error { return s.b.SetReadDeadline(t) }
func (s *sBuffer) Read(p []byte) (int, error)        { return s.b.Read(p) }
func (s *sBuffer) Deliver(d []byte) bool             { _, err := s.b.Write(d); return err == nil }
func (s *sBuffer) ReadFrame() string                 { return "packetio.(*Buffer).Read" }
func (s *sBuffer) Close()                            { s.b.Close() }

type sDpipe struct{ r, w net.Conn }

func (s *sDpipe) Raw() interface{}                  { return s.r }
func (s *sDpipe) SetReadDeadline(t time.Time) error { return s.r.SetReadDeadline(t) }
func (s *sDpipe) Read(p []byte) (int, error)        { return s.r.Read(p) }
func (s *sDpipe) Deliver(d []byte) bool             { _, err := s.w.Write(d); return err == nil }
func (s *sDpipe) ReadFrame() string                 { return "dpipe.(*conn).Read" }
func (s *sDpipe) Close()                            { s.r.Close(); s.w.Close() }

type sUDP struct {
	l      net.Listener
	c      net.Conn
	client *net.UDPConn
}

// newUDPListenerClosed: an accepted connection whose listener has been closed; the connection stays usable (the shared
// socket lives until the last connection is closed) and its deadlines must keep working.
func newUDPListenerClosed() (*sUDP, error) {
	s, err := newUDP()
	if err != nil {
		return nil, err
	}
	if err := s.l.Close(); err != nil {
		return nil, err
	}
	return s, nil
}

func newUDP() (*sUDP, error) {
	l, err := udp.Listen("udp", &net.UDPAddr{IP: net.IPv4(127, 0, 0, 1)})
	if err != nil {
		return nil, err
	}
	cl, err := net.DialUDP("udp", nil, l.Addr().(*net.UDPAddr))
	if err != nil {
		return nil, err
	}
	cl.Write([]byte("hello"))
	c, err := l.Accept()
	if err != nil {
		return nil, err
	}
	buf := make([]byte, 16)
	c.Read(buf)
	return &sUDP{l, c, cl}, nil
}
func (s *sUDP) Raw() interface{}                  { return s.c }
func (s *sUDP) SetReadDeadline(t time.Time) error { return s.c.SetReadDeadline(t) }
func (s *sUDP) Read(p []byte) (int, error)        { return s.c.Read(p) }
func (s *sUDP) Deliver(d []byte) bool {
	if _, err := s.client.Write(d); err != nil {
		return false
	}
	// loopback sendto queues the datagram on the listener's socket before returning; the datagram has been
	// dispatched once the read loop is parked in the kernel again (two consecutive snapshots)
	ok := 0
	port := s.l.Addr().(*net.UDPAddr).Port
	for t0 := time.Now(); time.Since(t0) < 5*time.Second; {
		if n, found := sockq.Pending(port); !found || n != 0 {
			ok = 0
			continue // still in the kernel queue (the netpoller has not woken the read loop yet)
		}
		ps := gstate.ParkedIn(gstate.Snapshot(), "udp.(*listener).readLoop")
		if len(ps) >= 1 && allIOWait(ps) {
			ok++
			if ok >= 2 {
				return true
			}
		} else {
			ok = 0
		}
	}
	return false
}
func allIOWait(ps []gstate.G) bool {
	for _, g := range ps {
		if g.State != "IO wait" {
			return false
		}
	}
	return true
}
func (s *sUDP) ReadFrame() string { return "packetio.(*Buffer).Read" }
func (s *sUDP) Close()            { s.c.Close(); s.l.Close(); s.client.Close() }

type sVnet struct {
	rt       *vnet.Router
	c, peer  net.PacketConn
	peerAddr *net.UDPAddr
	dst      *net.UDPAddr
	marks    chan struct{}
}

func newVnet() (*sVnet, error) {
	rt, err := vnet.NewRouter(&vnet.RouterConfig{CIDR: "10.7.0.0/24", LoggerFactory: vn.Silent()})
	if err != nil {
		return nil, err
	}
	a, _ := vnet.NewNet(&vnet.NetConfig{StaticIPs: []string{"10.7.0.1"}})
	b, _ := vnet.NewNet(&vnet.NetConfig{StaticIPs: []string{"10.7.0.2"}})
	if err := rt.AddNet(a); err != nil {
		return nil, err
	}
	if err := rt.AddNet(b); err != nil {
		return nil, err
	}
	if err := rt.Start(); err != nil {
		return nil, err
	}
	c, err := a.ListenUDP("udp", vn.UDP("10.7.0.1", 4000))
	if err != nil {
		return nil, err
	}
	p, err := b.ListenUDP("udp", vn.UDP("10.7.0.2", 4000))
	if err != nil {
		return nil, err
	}
	s := &sVnet{rt: rt, c: c, peer: p, peerAddr: vn.UDP("10.7.0.2", 4000), dst: vn.UDP("10.7.0.1", 4000), marks: make(chan struct{}, 64)}
	go func() {
		buf := make([]byte, 64)
		for {
			if _, _, err := p.ReadFrom(buf); err != nil {
				return
			}
			s.marks <- struct{}{}
		}
	}()
	return s, nil
}
func (s *sVnet) Raw() interface{} { return s.c }
func (s *sVnet) SetReadDeadline(t time.Time) error {
	return s.c.(interface{ SetReadDeadline(time.Time) error }).SetReadDeadline(t)
}
func (s *sVnet) Read(p []byte) (int, error) {
	n, _, err := s.c.ReadFrom(p)
	return n, err
}
func (s *sVnet) Deliver(d []byte) bool {
	if _, err := s.peer.WriteTo(d, s.dst); err != nil {
		return false
	}
	// flush marker through the same router queue: when it is back the datagram sits in the socket queue
	if _, err := s.peer.WriteTo([]byte("m"), s.peerAddr); err != nil {
		return false
	}
	select {
	case <-s.marks:
		return true
	case <-time.After(5 * time.Second):
		return false
	}
}
func (s *sVnet) ReadFrame() string { return "vnet.(*UDPConn).ReadFrom" }
func (s *sVnet) Close()            { s.c.Close(); s.peer.Close(); s.rt.Stop() }

type sBridge struct {
	br   *test.Bridge
	r, w net.Conn
	stop chan struct{}
}

func newBridge() *sBridge {
	br := test.NewBridge()
	s := &sBridge{br: br, r: br.GetConn0(), w: br.GetConn1(), stop: make(chan struct{})}
	go func() { // background Tick loop
		for {
			select {
			case <-s.stop:
				return
			default:
			}
			br.Tick()
			time.Sleep(100 * time.Microsecond)
		}
	}()
	return s
}
func (s *sBridge) Raw() interface{}                  { return s.r }
func (s *sBridge) SetReadDeadline(t time.Time) error { return s.r.SetReadDeadline(t) }
func (s *sBridge) Read(p []byte) (int, error)        { return s.r.Read(p) }
func (s *sBridge) Deliver(d []byte) bool             { _, err := s.w.Write(d); return err == nil }
func (s *sBridge) ReadFrame() string                 { return "test.(*bridgeConn).Read" }
func (s *sBridge) Close()                            { close(s.stop) }

// sVnetConn: a connected vnet socket (DialUDP towards the peer). A third host, the stranger, sends datagrams to the
// socket's address as well; a connected socket discards them, so for the reader they are no data at all: they must not
// be returned and must not keep a read from noticing its deadline.
type sVnetConn struct {
	*sVnet
	stranger     net.PacketConn
	strangerAddr *net.UDPAddr
	smarks       chan struct{}
}

func newVnetConn() (*sVnetConn, error) {
	rt, err := vnet.NewRouter(&vnet.RouterConfig{CIDR: "10.7.0.0/24", LoggerFactory: vn.Silent()})
	if err != nil {
		return nil, err
	}
	var nets []*vnet.Net
	for _, ip := range []string{"10.7.0.1", "10.7.0.2", "10.7.0.3"} {
		n, _ := vnet.NewNet(&vnet.NetConfig{StaticIPs: []string{ip}})
		if err := rt.AddNet(n); err != nil {
			return nil, err
		}
		nets = append(nets, n)
	}
	if err := rt.Start(); err != nil {
		return nil, err
	}
	cc, err := nets[0].DialUDP("udp", vn.UDP("10.7.0.1", 4000), vn.UDP("10.7.0.2", 4000))
	if err != nil {
		return nil, err
	}
	p, err := nets[1].ListenUDP("udp", vn.UDP("10.7.0.2", 4000))
	if err != nil {
		return nil, err
	}
	st, err := nets[2].ListenUDP("udp", vn.UDP("10.7.0.3", 4000))
	if err != nil {
		return nil, err
	}
	s := &sVnetConn{sVnet: &sVnet{rt: rt, c: cc.(net.PacketConn), peer: p, peerAddr: vn.UDP("10.7.0.2", 4000), dst: vn.UDP("10.7.0.1", 4000), marks: make(chan struct{}, 64)},
		stranger: st, strangerAddr: vn.UDP("10.7.0.3", 4000), smarks: make(chan struct{}, 64)}
	pump := func(c net.PacketConn, ch chan struct{}) {
		buf := make([]byte, 64)
		for {
			if _, _, err := c.ReadFrom(buf); err != nil {
				return
			}
			ch <- struct{}{}
		}
	}
	go pump(p, s.marks)
	go pump(st, s.smarks)
	return s, nil
}

// Noise: a stranger's datagram to the connected socket, confirmed to sit in (or to have passed) its queue by a marker
// through the same router queue.
func (s *sVnetConn) Noise() bool {
	if _, err := s.stranger.WriteTo([]byte("noise-from-a-stranger"), s.dst); err != nil {
		return false
	}
	if _, err := s.stranger.WriteTo([]byte("m"), s.strangerAddr); err != nil {
		return false
	}
	select {
	case <-s.smarks:
		return true
	case <-time.After(5 * time.Second):
		return false
	}
}
func (s *sVnetConn) Close() { s.stranger.Close(); s.sVnet.Close() }

func newSubject(name string) (subject, error) {
	switch name {
	case "buffer":
		return &sBuffer{packetio.NewBuffer()}, nil
	case "dpipe":
		a, b := dpipe.Pipe()
		return &sDpipe{a, b}, nil
	case "udp":
		return newUDP()
	case "udp-lclosed":
		return newUDPListenerClosed()
	case "vnet":
		return newVnet()
	case "vnet-conn":
		return newVnetConn()
	case "bridge":
		return newBridge(), nil
	}
	return nil, fmt.Errorf("unknown subject %s", name)
}

// ---------- scripts ----------

type op struct {
	K   string `json:"k"`             // zero past near far idle deliver read park
	Ms  int    `json:"ms,omitempty"`  // near: ms ahead; idle: ms
	X   string `json:"x,omitempty"`   // park: what happens while the read is parked: past near deliver near-zero-deliver far-deliver
	Via string `json:"via,omitempty"` // zero/past/near/far: "" = SetReadDeadline, "all" = SetDeadline (when the type offers it); wdl: kind of write deadline
}

type script struct {
	Subject string `json:"subject"`
	Ops     []op   `json:"ops"`
}

type setRec struct {
	d    time.Time // value
	done time.Time // when the Set call returned
	kind string
}

func isTimeout(err error) bool {
	var ne net.Error
	if errors.As(err, &ne) && ne.Timeout() {
		return true
	}
	type to interface{ Timeout() bool }
	if t, ok := err.(to); ok && t.Timeout() {
		return true
	}
	return false
}

type readRes struct {
	n    int
	err  error
	data []byte
	tRet time.Time
}

func runScript(sc *script, r *res.Result) (string, string, int) {
	sub, err := newSubject(sc.Subject)
	if err != nil {
		return "", "inconclusive: " + err.Error(), 0
	}
	defer sub.Close()
	var sets []setRec
	sets = append(sets, setRec{kind: "zero", done: time.Now()})
	var pending [][]byte
	seq := 0
	via := ""
	mk := func(kind string, ms int) time.Time {
		switch kind {
		case "past":
			return time.Now().Add(-time.Hour)
		case "near":
			return time.Now().Add(time.Duration(ms) * time.Millisecond)
		case "far":
			return time.Now().Add(time.Hour)
		}
		return time.Time{}
	}
	set := func(kind string, ms int) {
		t := mk(kind, ms)
		if sd, ok := sub.Raw().(interface{ SetDeadline(time.Time) error }); ok && via == "all" {
			sd.SetDeadline(t) // both directions: the read deadline is t as well
			r.Count("sets_via_SetDeadline", 1)
		} else {
			sub.SetReadDeadline(t)
		}
		sets = append(sets, setRec{d: t, done: time.Now(), kind: kind})
		r.Count("sets_"+kind, 1)
	}
	deliver := func() bool {
		seq++
		d := []byte(fmt.Sprintf("msg-%d-%s", seq, strings.Repeat("x", seq%7)))
		if !sub.Deliver(d) {
			return false
		}
		pending = append(pending, d)
		return true
	}
	// startRead launches a Read and returns a channel with its result plus the goroutine id
	zeroBuf := false // the next read uses an empty destination (only where a passed deadline must make it fail anyway)
	startRead := func() (chan readRes, *int64) {
		ch := make(chan readRes, 1)
		blen := 128
		if zeroBuf {
			blen, zeroBuf = 0, false
			r.Count("reads_with_empty_destination_after_expiry", 1)
		}
		var id int64
		ready := make(chan struct{})
		go func() {
			id = gstate.GoID()
			close(ready)
			buf := make([]byte, blen)
			n, err := sub.Read(buf)
			ch <- readRes{n, err, append([]byte{}, buf[:max(n, 0)]...), time.Now()}
		}()
		<-ready
		return ch, &id
	}
	parked := func(id int64) bool {
		for _, g := range gstate.Snapshot() {
			if g.ID == id {
				return gstate.Blocked(g.State) && g.Has(sub.ReadFrame())
			}
		}
		return false
	}
	// judge a completed read. setsFrom: index of the Set in force when the read was called.
	judge := func(i int, rr readRes, tCall time.Time, setsFrom int, canaryFired func(time.Time) bool) (string, string) {
		if rr.err != nil && isTimeout(rr.err) {
			r.Count("reads_timeout", 1)
			// legal iff some deadline in force during the read was non-zero and had passed while in force
			for k := setsFrom; k < len(sets); k++ {
				end := rr.tRet
				if k+1 < len(sets) && sets[k+1].done.Before(end) {
					end = sets[k+1].done
				}
				if !sets[k].d.IsZero() && !sets[k].d.After(end) {
					return "", ""
				}
			}
			cur := sets[len(sets)-1]
			kind := "early"
			if cur.d.IsZero() {
				kind = "spurious"
			}
			return "rdl:" + sc.Subject + ":timeout-" + kind, fmt.Sprintf("op %d: Read failed with a timeout at %v although the deadline in force (%s, %v from now at return) had not passed", i, rr.tRet.Format("15:04:05.000000"), cur.kind, cur.d.Sub(rr.tRet))
		}
		if rr.err != nil {
			return "rdl:" + sc.Subject + ":unexpected-error", fmt.Sprintf("op %d: Read returned %v", i, rr.err)
		}
		r.Count("reads_data", 1)
		if len(pending) == 0 || !bytes.Equal(rr.data, pending[0]) {
			return "rdl:" + sc.Subject + ":wrong-data", fmt.Sprintf("op %d: Read returned %q, expected the oldest pending message", i, rr.data)
		}
		pending = pending[1:]
		// data is illegal when the deadline had observably passed before the call began (no Set since)
		if setsFrom == len(sets)-1 {
			cur := sets[setsFrom]
			if cur.kind == "past" {
				return "rdl:" + sc.Subject + ":data-after-expiry", fmt.Sprintf("op %d: Read returned data although the read deadline was set in the past and has not been changed", i)
			}
			if cur.kind == "near" && tCall.Sub(cur.d) >= 200*time.Millisecond && canaryFired(cur.d) {
				return "rdl:" + sc.Subject + ":data-after-expiry", fmt.Sprintf("op %d: Read returned data although the deadline passed %v before the call (a timer due at the deadline has fired)", i, tCall.Sub(cur.d))
			}
		}
		return "", ""
	}
	canary := func(d time.Time) bool { // a runtime timer due at d has run?
		c := make(chan struct{})
		t := time.AfterFunc(time.Until(d), func() { close(c) })
		defer t.Stop()
		select {
		case <-c:
			return true
		case <-time.After(50 * time.Millisecond):
			return false
		}
	}
	// waitRead waits for a read expected to return: violation if it stays parked although it must be released.
	waitRead := func(i int, ch chan readRes, id *int64, mustBy func() (bool, string)) (readRes, string, string) {
		t0 := time.Now()
		for {
			select {
			case rr := <-ch:
				return rr, "", ""
			case <-time.After(500 * time.Microsecond):
			}
			if must, why := mustBy(); must {
				stable := 0
				for k := 0; k < 3; k++ {
					if parked(*id) {
						stable++
					}
					time.Sleep(time.Millisecond)
				}
				select {
				case rr := <-ch:
					return rr, "", ""
				default:
				}
				if stable == 3 {
					return readRes{}, "rdl:" + sc.Subject + ":blocked-" + why, fmt.Sprintf("op %d: Read is parked (3 samples) although %s", i, map[string]string{"data": "a message has been delivered and its arrival confirmed (the read must return it or time out)", "deadline": "its deadline passed more than a second ago and a timer due at the deadline has fired"}[why])
				}
			}
			if time.Since(t0) > 20*time.Second {
				return readRes{}, "", "inconclusive: read neither returned nor parked"
			}
		}
	}
	for i, o := range sc.Ops {
		switch o.K {
		case "zero", "past", "near", "far":
			via = o.Via
			set(o.K, o.Ms)
			via = ""
		case "wdl":
			// a write deadline must not influence reads
			if sd, ok := sub.Raw().(interface{ SetWriteDeadline(time.Time) error }); ok {
				sd.SetWriteDeadline(mk(o.Via, 5))
				r.Count("write_deadline_sets", 1)
			}
		case "idle":
			time.Sleep(time.Duration(o.Ms) * time.Millisecond)
		case "noise":
			// not data for the reader: the model does not change
			if nz, ok := sub.(interface{ Noise() bool }); ok {
				if !nz.Noise() {
					return "", "inconclusive: noise not confirmed", i
				}
				r.Count("noise_datagrams_to_connected_socket", 1)
			}
		case "deliver":
			if !deliver() {
				return "", "inconclusive: deliver not confirmed", i
			}
		case "read":
			cur := sets[len(sets)-1]
			if len(pending) == 0 && (cur.kind == "zero" || cur.kind == "far") {
				continue // would legitimately block forever
			}
			setsFrom := len(sets) - 1
			tCall := time.Now()
			zeroBuf = cur.kind == "past" && i%2 == 0 // a passed deadline fails every read, whatever its destination
			ch, id := startRead()
			hadData := len(pending) > 0
			rr, k, d := waitRead(i, ch, id, func() (bool, string) {
				if hadData {
					return true, "data"
				}
				if cur.kind == "past" || cur.kind == "near" && time.Since(cur.d) > time.Second && canary(cur.d) {
					return true, "deadline"
				}
				return false, ""
			})
			if k != "" || d != "" {
				sub.SetReadDeadline(time.Now().Add(-time.Hour))
				return k, d, i
			}
			if k, d := judge(i, rr, tCall, setsFrom, canary); k != "" {
				return k, d, i
			}
			r.DistinctKey(fmt.Sprintf("%s read set=%s data=%v timeout=%v", sc.Subject, cur.kind, hadData, rr.err != nil))
		case "park":
			cur := sets[len(sets)-1]
			if len(pending) != 0 || !(cur.kind == "zero" || cur.kind == "far") {
				continue
			}
			setsFrom := len(sets) - 1
			tCall := time.Now()
			ch, id := startRead()
			// wait until the read is parked (state predicate)
			okp := false
			for t0 := time.Now(); time.Since(t0) < 5*time.Second; {
				if parked(*id) {
					okp = true
					break
				}
				select {
				case rr := <-ch:
					ch <- rr
					t0 = t0.Add(-time.Hour)
				default:
				}
			}
			if !okp {
				select {
				case rr := <-ch:
					if k, d := judge(i, rr, tCall, setsFrom, canary); k != "" {
						return k, d, i
					}
					return "rdl:" + sc.Subject + ":returned-without-cause", fmt.Sprintf("op %d: Read returned (%d,%v) with no data and no deadline", i, rr.n, rr.err), i
				default:
					return "", "inconclusive: read did not park", i
				}
			}
			r.Count("parked_reads", 1)
			var mustWhy string
			switch o.X {
			case "past":
				set("past", 0)
				mustWhy = "deadline"
			case "near":
				set("near", o.Ms)
				mustWhy = "deadline"
			case "zero-past": // a (redundant) clear first: the reader that parked before it must still be released
				set("zero", 0)
				set("past", 0)
				mustWhy = "deadline"
			case "far-zero-near":
				set("far", 0)
				set("zero", 0)
				set("near", o.Ms)
				mustWhy = "deadline"
			case "deliver":
				if !deliver() {
					return "", "inconclusive: deliver not confirmed", i
				}
				mustWhy = "data"
			case "near-zero-deliver":
				set("near", 40)
				set("zero", 0)
				if !deliver() {
					return "", "inconclusive: deliver not confirmed", i
				}
				mustWhy = "data"
			case "far-deliver":
				set("far", 0)
				if !deliver() {
					return "", "inconclusive: deliver not confirmed", i
				}
				mustWhy = "data"
			}
			last := sets[len(sets)-1]
			rr, k, d := waitRead(i, ch, id, func() (bool, string) {
				if mustWhy == "data" {
					return true, "data"
				}
				if last.kind == "past" || time.Since(last.d) > time.Second && canary(last.d) {
					return true, "deadline"
				}
				return false, ""
			})
			if k != "" || d != "" {
				sub.SetReadDeadline(time.Now().Add(-time.Hour))
				return k, d, i
			}
			if k, d := judge(i, rr, tCall, setsFrom, canary); k != "" {
				return k, d, i
			}
			r.DistinctKey(fmt.Sprintf("%s park then %s timeout=%v", sc.Subject, o.X, rr.err != nil))
		}
	}
	return "", "", 0
}

func max(a, b int) int {
	if a > b {
		return a
	}
	return b
}

func genScript(rng *rand.Rand, subj string) *script {
	sc := &script{Subject: subj}
	n := 3 + rng.Intn(6)
	idles := 0
	for i := 0; i < n; i++ {
		switch k := rng.Intn(100); {
		case k < 8:
			sc.Ops = append(sc.Ops, op{K: "zero", Via: []string{"", "all"}[rng.Intn(2)]})
		case k < 16:
			sc.Ops = append(sc.Ops, op{K: "past", Via: []string{"", "all"}[rng.Intn(2)]})
		case k < 28:
			sc.Ops = append(sc.Ops, op{K: "near", Ms: 2 + rng.Intn(19), Via: []string{"", "", "all"}[rng.Intn(3)]})
		case k < 34:
			sc.Ops = append(sc.Ops, op{K: "far", Via: []string{"", "all"}[rng.Intn(2)]})
		case k < 40:
			sc.Ops = append(sc.Ops, op{K: "wdl", Via: []string{"zero", "past", "near", "far"}[rng.Intn(4)]})
		case k < 50 && idles < 2:
			idles++
			sc.Ops = append(sc.Ops, op{K: "idle", Ms: 275})
		case k < 65:
			sc.Ops = append(sc.Ops, op{K: "deliver"})
		case k < 90:
			sc.Ops = append(sc.Ops, op{K: "read"})
		default:
			sc.Ops = append(sc.Ops, op{K: "park", X: []string{"past", "near", "deliver", "near-zero-deliver", "far-deliver", "zero-past", "far-zero-near"}[rng.Intn(7)], Ms: 2 + rng.Intn(10)})
		}
	}
	if subj == "vnet-conn" {
		// a stranger's datagram in front of about every second read / park, and sometimes elsewhere
		var ops []op
		for _, o := range sc.Ops {
			if (o.K == "read" || o.K == "park") && rng.Intn(2) == 0 || rng.Intn(8) == 0 {
				ops = append(ops, op{K: "noise"})
			}
			ops = append(ops, o)
		}
		sc.Ops = ops
	}
	// directed patterns
	switch rng.Intn(10) {
	case 0: // expires unobserved, then extended, then data
		sc.Ops = append(sc.Ops, op{K: "near", Ms: 3}, op{K: "idle", Ms: 275}, op{K: "far"}, op{K: "deliver"}, op{K: "read"})
	case 1: // two reads after an expiry
		sc.Ops = append(sc.Ops, op{K: "near", Ms: 3}, op{K: "read"}, op{K: "read"}, op{K: "deliver"}, op{K: "read"})
	case 2: // expiry persists with data pending
		sc.Ops = append(sc.Ops, op{K: "deliver"}, op{K: "near", Ms: 3}, op{K: "idle", Ms: 275}, op{K: "read"}, op{K: "read"}, op{K: "zero"}, op{K: "read"})
	case 3:
		sc.Ops = append(sc.Ops, op{K: "past"}, op{K: "deliver"}, op{K: "read"}, op{K: "near", Ms: 500}, op{K: "read"})
	case 4: // the read deadline expires, then everything is cleared with SetDeadline(zero) while the write deadline is still zero
		sc.Ops = append(sc.Ops, op{K: "near", Ms: 3}, op{K: "idle", Ms: 275}, op{K: "zero", Via: "all"}, op{K: "deliver"}, op{K: "read"})
	case 6: // a deadline is extended, the original instant passes unobserved, then a nearer deadline is set: that one counts
		sc.Ops = append(sc.Ops, op{K: "near", Ms: 3}, op{K: "far"}, op{K: "idle", Ms: 275}, op{K: "near", Ms: 5}, op{K: "read"}, op{K: "read"})
	case 7: // the same with a blocked reader: parked under the extended deadline, released by the nearer one
		sc.Ops = append(sc.Ops, op{K: "near", Ms: 3}, op{K: "far"}, op{K: "idle", Ms: 275}, op{K: "park", X: "near", Ms: 5})
	case 5: // write deadline first, then SetDeadline: the read deadline must be installed
		sc.Ops = append(sc.Ops, op{K: "wdl", Via: "zero"}, op{K: "past"}, op{K: "zero", Via: "all"}, op{K: "deliver"}, op{K: "read"}, op{K: "park", X: "past"})
	}
	return sc
}

func main() {
	tier := flag.String("tier", "quick", "")
	seed := flag.Int64("seed", 1, "")
	shard := flag.Int("shard", 0, "")
	nshard := flag.Int("nshard", 1, "")
	out := flag.String("out", "", "")
	replay := flag.String("replay", "", "")
	flag.Parse()
	_ = nshard
	r := res.New("C10")
	r.Rule = "scripts over {Set zero, Set past, Set near(+2..20ms), Set far(+1h), Idle 275ms, Deliver, Read, Park-then-{past,near,deliver,near+zero+deliver,far+deliver,zero+past,far+zero+near}} on seven subjects (packetio.Buffer, dpipe, udp.Conn over loopback, udp.Conn whose listener has been closed, vnet UDPConn through a router, a connected vnet UDPConn that also gets datagrams from a stranger which it has to discard, Bridge endpoint with a Tick loop); oracle: timeout legal iff a non-zero deadline in force during the read had passed; data illegal iff the deadline had observably passed before the call (set in the past, or >=200ms ago with a canary timer fired); a read that must be released (confirmed data / deadline passed >1s ago + canary) and is parked in the subject's Read (3 samples) is a violation; plus, on packetio.Buffer and dpipe, a phase that extends or clears a 300 us deadline at instants swept across its expiry and then reads a delivered message (a timeout is illegal however the race went); distinct = (subject, deadline kind, data pending, outcome) cells"
	r.Assumptions = []string{"interval reasoning on stamps taken before the call and after the return; scheduling delay can only make a legal timeout look later, never earlier", "reads that start within 200ms after a near deadline are unconstrained (expiry is delivered by a runtime timer)"}
	if *replay != "" {
		b, _ := os.ReadFile(*replay)
		var w struct {
			Witness script `json:"witness"`
		}
		if err := json.Unmarshal(b, &w); err != nil {
			fmt.Fprintln(os.Stderr, err)
			os.Exit(2)
		}
		for k := 0; k < 5 && r.NViol() == 0; k++ {
			r.Eval(1)
			if key, d, _ := runScript(&w.Witness, r); key != "" {
				r.Violate(key, d, &w.Witness)
			}
		}
		r.Write(*out)
		return
	}
	n := 30
	if *tier == "thorough" {
		n = 240
	}
	subjects := []string{"buffer", "dpipe", "udp", "udp-lclosed", "vnet", "vnet-conn", "bridge"}
	rng := rand.New(rand.NewSource(*seed*811 + int64(*shard)*53 + 29))
	var mu sync.Mutex
	seen := map[string]int{}
	for i := 0; i < n; i++ {
		for _, sj := range subjects {
			sc := genScript(rng, sj)
			if *out != "" {
				if b, err := json.Marshal(sc); err == nil {
					os.WriteFile(strings.TrimSuffix(*out, ".json")+".case", b, 0o644)
				}
			}
			r.Eval(1)
			r.Count("scripts_"+sj, 1)
			key, d, at := runScript(sc, r)
			if key == "" && d != "" {
				r.Inconc(sj + ": " + d)
				continue
			}
			if key != "" {
				mu.Lock()
				seen[key]++
				if seen[key] <= 2 {
					if at+1 < len(sc.Ops) {
						sc.Ops = sc.Ops[:at+1]
					}
					r.Violate(key, d, sc)
				}
				mu.Unlock()
			}
			if i == 0 && *shard == 0 && sj == "buffer" {
				r.Sample(sc)
			}
		}
	}
	// extend / clear a deadline right at the moment it expires (the timer has fired, its callback may not have run yet)
	iters := 1500
	if *tier == "thorough" {
		iters = 12000
	}
	for _, sj := range []string{"buffer", "dpipe"} {
		r.Eval(1)
		if key, d := raceExtend(sj, iters, r); key != "" {
			r.Violate(key, d, map[string]interface{}{"subject": sj, "phase": "extend-at-expiry", "iterations": iters})
		} else if d != "" {
			r.Inconc(sj + ": " + d)
		}
	}
	r.Write(*out)
}

// raceExtend: a 300 us read deadline is extended by an hour (or cleared) at an instant swept from 10 us before to 190 us
// after its expiry; then a message is delivered and read. The deadline in force when that read is called is an hour
// away (or none), so the read must return the message; a timeout is a violation however the race went. Afterwards a
// short deadline without data must still release a read.
func raceExtend(name string, iters int, r *res.Result) (string, string) {
	sub, err := newSubject(name)
	if err != nil {
		return "", "inconclusive: " + err.Error()
	}
	defer sub.Close()
	buf := make([]byte, 64)
	for i := 0; i < iters; i++ {
		d := time.Now().Add(300 * time.Microsecond)
		sub.SetReadDeadline(d)
		until := d.Add(time.Duration(-10+(i%21)*10) * time.Microsecond)
		for time.Now().Before(until) {
		}
		kind := "an hour ahead"
		if i%2 == 0 {
			sub.SetReadDeadline(time.Now().Add(time.Hour))
		} else {
			sub.SetReadDeadline(time.Time{})
			kind = "cleared"
		}
		msg := []byte(fmt.Sprintf("x%06d", i))
		if !sub.Deliver(msg) {
			return "", "inconclusive: deliver failed in the extend-at-expiry phase"
		}
		n, err := sub.Read(buf)
		r.Count("extend_at_expiry_reads", 1)
		if err != nil {
			var ne net.Error
			if errors.As(err, &ne) && ne.Timeout() {
				return "rdl:" + name + ":timeout-after-extension", fmt.Sprintf("iteration %d: Read failed with a timeout although the deadline had been set again (%s) before the read was called, right around the expiry of the previous 300us deadline", i, kind)
			}
			return "rdl:" + name + ":unexpected-error", fmt.Sprintf("extend-at-expiry iteration %d: Read returned %v", i, err)
		}
		if string(buf[:n]) != string(msg) {
			return "rdl:" + name + ":wrong-data", fmt.Sprintf("extend-at-expiry iteration %d: Read returned %q, expected %q", i, buf[:n], msg)
		}
	}
	// the deadline must still work
	sub.SetReadDeadline(time.Now().Add(5 * time.Millisecond))
	done := make(chan error, 1)
	go func() { _, err := sub.Read(buf); done <- err }()
	canary := time.After(1500 * time.Millisecond)
	select {
	case <-done:
		return "", ""
	case <-canary:
	}
	for k := 0; k < 3; k++ {
		if len(gstate.ParkedIn(gstate.Snapshot(), sub.ReadFrame())) == 0 {
			select {
			case <-done:
				return "", ""
			case <-time.After(5 * time.Second):
				return "", "inconclusive: read neither returned nor parked after the extend-at-expiry phase"
			}
		}
		time.Sleep(2 * time.Millisecond)
	}
	return "rdl:" + name + ":blocked-deadline", "after the extend-at-expiry phase a read with a 5 ms deadline and no data is still parked 1.5 s later (a timer due after the deadline has fired): deadlines are no longer signalled"
}
