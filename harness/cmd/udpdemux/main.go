// Command udpdemux: monitor for the UDP listener's demultiplexing (C11). Real loopback sockets, free-running, -race.
package main

import (
	"bytes"
	"encoding/binary"
	"errors"
	"flag"
	"fmt"
	"io"
	"math/rand"
	"net"
	"os"
	"strings"
	"sync"
	"sync/atomic"
	"time"

	"github.com/pion/transport/v3/udp"
	"verifharness/internal/gstate"
	"verifharness/internal/res"
	"verifharness/internal/sockq"
	"verifharness/internal/vn"
)

type dcase struct {
	Clients  int    `json:"clients"`
	MultiIP  bool   `json:"multi_ip"` // same port on 127.0.0.1/.2/.3
	Backlog  int    `json:"backlog"`
	Filter   string `json:"filter"` // none | even (first byte even admitted) | skipfirst | firstonly
	Batch    int    `json:"batch"`  // 0 off, else ReadBatchSize
	Paced    bool   `json:"paced"`
	PerCli   int    `json:"datagrams_per_client"`
	Reconn   bool   `json:"close_and_reconnect"`
	Overflow bool   `json:"overflow_phase"`
	// PartRead: one remote builds a backlog of about 100 KB on its connection while the handler does not read, the handler
	// then reads part of it, the remote sends about as much again, and only then the handler reads on: the connection's
	// receive queue grows while it holds wrapped, partly consumed data. Everything must come out, in order and intact.
	PartRead bool `json:"part_read,omitempty"`
	// RingEnd (with PartRead): instead of the 100 KB backlog the first datagrams of the remote are sized so that, with one
	// of them read in between, a later one ends exactly on the last byte of the connection's 2048 / 4096 byte receive
	// ring; then the connection is drained before more arrives
	RingEnd  bool  `json:"ring_end,omitempty"`
	SlowRead bool  `json:"slow_reader,omitempty"` // one remote fills its connection's receive buffer (4 MiB) while the handler does not read
	Seed     int64 `json:"seed"`
}

// datagram: [0] first byte (filter class), [1:3] client, [3:7] seq, [7:11] len, filler
func mk(cli int, seq uint32, size int, odd bool) []byte {
	if size < 12 {
		size = 12
	}
	b := vn.Payload(uint64(cli)<<32|uint64(seq), size)
	b[0] = 2
	if odd {
		b[0] = 3
	}
	binary.BigEndian.PutUint16(b[1:], uint16(cli))
	binary.BigEndian.PutUint32(b[3:], seq)
	binary.BigEndian.PutUint32(b[7:], uint32(size))
	return b
}

func parse(b []byte) (cli int, seq uint32, ok bool) {
	if len(b) < 12 {
		return 0, 0, false
	}
	cli = int(binary.BigEndian.Uint16(b[1:]))
	seq = binary.BigEndian.Uint32(b[3:])
	size := int(binary.BigEndian.Uint32(b[7:]))
	if size != len(b) {
		return cli, seq, false
	}
	return cli, seq, bytes.Equal(b, mk(cli, seq, size, b[0] == 3))
}

type client struct {
	idx         int
	conn        *net.UDPConn
	addr        string
	odd         bool   // refused by the "even" filter
	lastRead    uint32 // highest seq read by any connection of this remote (atomic)
	sent        uint32
	openConn    int32 // number of harness-side open connections for this remote
	cmu         sync.Mutex
	closedConns []net.Conn // connections of this remote that the harness has closed (stale handles)
}

// listenerPort is the port of the listener of the running case (one case at a time per process).
var listenerPort int

// readLoopIdle: the listener's kernel receive queue is empty AND its read loop is parked in the kernel, twice in a row.
// (The goroutine state alone is not enough: after sendto returns, the datagram sits in the socket queue until the
// netpoller wakes the read loop, which still shows "IO wait" meanwhile.)
func readLoopIdle() bool {
	ok := 0
	for t0 := time.Now(); time.Since(t0) < 10*time.Second; {
		if n, found := sockq.Pending(listenerPort); !found || n != 0 {
			ok = 0
			continue
		}
		ps := gstate.ParkedIn(gstate.Snapshot(), "udp.(*listener).readLoop")
		idle := len(ps) >= 1
		for _, g := range ps {
			if g.State != "IO wait" {
				idle = false
			}
		}
		if idle {
			ok++
			if ok >= 2 {
				return true
			}
		} else {
			ok = 0
		}
	}
	return false
}

// libraryQuiet: nothing is in flight between the socket and the connection readers: the socket queue is empty, every
// goroutine inside package udp or packetio is parked (read loop in the kernel), the acceptor is parked in Accept (so
// every connection it has taken has been handed to a handler: liveHandlers is up to date), and every live handler is
// parked inside Conn.Read (none is still on its way to its first Read or busy with a datagram).
func libraryQuiet(liveHandlers int) bool {
	if n, found := sockq.Pending(listenerPort); !found || n != 0 {
		return false
	}
	snap := gstate.Snapshot()
	inRead := 0
	for _, g := range snap {
		if (g.Has("pion/transport/v3/udp.") || g.Has("pion/transport/v3/packetio.")) && !gstate.Blocked(g.State) {
			return false
		}
		if g.Has("udp.(*Conn).Read") {
			inRead++
		}
	}
	return len(gstate.ParkedIn(snap, "udp.(*listener).Accept")) == 1 && inRead == liveHandlers
}

func runCase(c *dcase, r *res.Result) (string, string) {
	lc := udp.ListenConfig{Backlog: c.Backlog}
	if c.Filter == "even" || c.Filter == "skipfirst" || c.Filter == "firstonly" {
		// "firstonly": the filter admits even first bytes; every remote's first datagram is even, a third of its later ones
		// are odd. The filter decides about NEW remotes only: datagrams of a remote that has a connection are delivered
		// to it whatever the filter would say
		// "skipfirst": every remote's datagram with seq 1 carries an odd first byte and is refused, later ones are admitted
		lc.AcceptFilter = func(b []byte) bool { return len(b) > 0 && b[0]%2 == 0 }
	}
	if c.Batch > 0 {
		lc.Batch = udp.BatchIOConfig{Enable: true, ReadBatchSize: c.Batch, WriteBatchSize: 1, WriteBatchInterval: time.Millisecond}
	}
	l, err := lc.Listen("udp", &net.UDPAddr{IP: net.IPv4(127, 0, 0, 1)})
	if err != nil {
		return "", "inconclusive: listen: " + err.Error()
	}
	laddr := l.Addr().(*net.UDPAddr)
	listenerPort = laddr.Port
	// datagrams the kernel drops at a full socket buffer never reach the library: make the buffer large (the pacing
	// keeps at most 48 KiB of payload outstanding, but the kernel accounts a multiple of that for small datagrams) and
	// read the socket's own drop counter at the end
	r.Max("listener_rcvbuf_bytes", int64(sockq.SetRcvBuf(listenerPort, 8<<20)))
	rng := rand.New(rand.NewSource(c.Seed))
	var vmu sync.Mutex
	vkey, vdesc := "", ""
	violate := func(k, d string) {
		vmu.Lock()
		if vkey == "" {
			vkey, vdesc = k, d
		}
		vmu.Unlock()
	}
	var clients []*client
	byAddr := map[string]*client{}
	basePort := 0
	for i := 0; i < c.Clients; i++ {
		la := &net.UDPAddr{IP: net.IPv4(127, 0, 0, 1)}
		if c.MultiIP && i < 5 {
			// the same port on other loopback addresses: neighbours (127.0.0.2, .3) and addresses that differ from 127.0.0.1
			// in another octet only (127.1.0.1, 127.0.1.1) - every pair is a different remote
			la.IP = []net.IP{net.IPv4(127, 0, 0, 1), net.IPv4(127, 0, 0, 2), net.IPv4(127, 0, 0, 3), net.IPv4(127, 1, 0, 1), net.IPv4(127, 0, 1, 1)}[i]
			la.Port = basePort
		}
		cc, err := net.DialUDP("udp", la, laddr)
		if err != nil {
			// same port on another loopback IP not available: fall back to an ephemeral one
			la.Port = 0
			cc, err = net.DialUDP("udp", la, laddr)
			if err != nil {
				l.Close()
				return "", "inconclusive: dial: " + err.Error()
			}
		}
		if c.MultiIP && i == 0 {
			basePort = cc.LocalAddr().(*net.UDPAddr).Port
		}
		cl := &client{idx: i, conn: cc, addr: cc.LocalAddr().String(), odd: c.Filter == "even" && i%3 == 2}
		clients = append(clients, cl)
		byAddr[cl.addr] = cl
	}
	defer func() {
		for _, cl := range clients {
			cl.conn.Close()
		}
	}()
	if c.MultiIP && c.Clients >= 2 {
		a0, a1 := clients[0].conn.LocalAddr().(*net.UDPAddr), clients[1].conn.LocalAddr().(*net.UDPAddr)
		if a0.Port == a1.Port && !a0.IP.Equal(a1.IP) {
			r.Count("same_port_different_ip_pairs", 1)
		}
	}
	var readers sync.WaitGroup
	var outstanding int64 // bytes sent by paced senders and not yet read (global budget keeps the kernel queue far below its limit)
	const budget = 48 * 1024
	complete := c.Paced && !c.Reconn && c.Backlog >= c.Clients && !c.SlowRead // every admissible datagram must come out
	var stop int32
	var nConns, nReconn, handlersSpawned, handlersDone int64
	firstReads := map[string]uint32{}
	var fmu sync.Mutex
	victim := -1
	burstIdx := -1 // a remote that sent a burst while its connection was still waiting in the accept queue
	release := make(chan struct{})
	var releaseOnce sync.Once
	defer releaseOnce.Do(func() { close(release) })
	if c.SlowRead || c.PartRead {
		for _, cl := range clients {
			if !cl.odd {
				victim = cl.idx
				break
			}
		}
	}
	read60 := make(chan struct{})
	var read60Once sync.Once
	release2 := make(chan struct{})
	var release2Once sync.Once
	defer release2Once.Do(func() { close(release2) })
	// connection reader: isolation, order, integrity, gap-freeness (paced)
	handle := func(conn net.Conn, closeAfter int) {
		defer readers.Done()
		defer atomic.AddInt64(&handlersDone, 1)
		ra := conn.RemoteAddr().String()
		cl := byAddr[ra]
		if cl == nil {
			violate("demux:unknown-remote", fmt.Sprintf("Accept returned a connection for %s which is none of the senders", ra))
			conn.Close()
			return
		}
		if cl.odd {
			violate("demux:filter-bypassed", fmt.Sprintf("a connection was created for %s although the accept filter refuses all of its datagrams", ra))
		}
		if n := atomic.AddInt32(&cl.openConn, 1); n > 1 {
			violate("demux:duplicate-connection", fmt.Sprintf("two connections for remote %s are open at the same time", ra))
		}
		// Close again on the stale handles of this remote's earlier, already closed connections: it must leave the
		// fresh connection alone (a second connection for the remote would show up above, lost datagrams below)
		cl.cmu.Lock()
		stale := append([]net.Conn{}, cl.closedConns...)
		cl.cmu.Unlock()
		for _, old := range stale {
			old.Close()
			r.Count("closes_of_closed_connections", 1)
		}
		if (c.SlowRead || c.PartRead) && cl.idx == victim {
			<-release // slow reader: nothing is read until the remote has overfilled the receive buffer / built its backlog
		}
		strict := (c.PartRead && cl.idx == victim || cl.idx == burstIdx) && closeAfter == 0
		buf := make([]byte, 9000)
		var last uint32
		reads := 0
		hr := rand.New(rand.NewSource(c.Seed*7 + int64(cl.idx)))
		for {
			conn.SetReadDeadline(time.Now().Add(50 * time.Millisecond))
			rb := buf
			if hr.Intn(8) == 0 {
				rb = buf[:16] // a short read: the datagram is consumed, its first 16 bytes are returned with io.ErrShortBuffer
			}
			n, err := conn.Read(rb)
			if errors.Is(err, io.ErrShortBuffer) && len(rb) == 16 && n == 16 {
				hci := int(binary.BigEndian.Uint16(rb[1:]))
				hseq := binary.BigEndian.Uint32(rb[3:])
				hsize := int(binary.BigEndian.Uint32(rb[7:]))
				if hsize <= 16 || hsize > 9000 || !bytes.Equal(rb[:16], mk(hci, hseq, hsize, rb[0] == 3)[:16]) {
					violate("demux:corrupt", fmt.Sprintf("connection of %s: a short read returned 16 bytes that are not the head of an intact datagram", ra))
					break
				}
				r.Count("short_reads", 1)
				// the whole datagram is consumed: hand the complete one to the checks below
				n = hsize
				copy(buf, mk(hci, hseq, hsize, rb[0] == 3))
				err = nil
			}
			if err != nil {
				if atomic.LoadInt32(&stop) != 0 {
					break
				}
				if ne, ok := err.(net.Error); ok && ne.Timeout() {
					continue
				}
				break
			}
			ci, seq, ok := parse(buf[:n])
			if !ok {
				violate("demux:corrupt", fmt.Sprintf("connection of %s read %d bytes that are not an intact datagram", ra, n))
				break
			}
			if ci != cl.idx {
				violate("demux:wrong-connection", fmt.Sprintf("connection of %s (client %d) delivered a datagram sent by client %d (%s)", ra, cl.idx, ci, clients[ci].addr))
				break
			}
			prev := atomic.LoadUint32(&cl.lastRead)
			if seq <= prev {
				violate("demux:order", fmt.Sprintf("connection of %s delivered seq %d after seq %d (reordered, duplicated, or old data in a fresh connection)", ra, seq, prev))
				break
			}
			if reads == 0 {
				fmu.Lock()
				if _, seen := firstReads[ra]; !seen {
					firstReads[ra] = seq
				}
				fmu.Unlock()
			}
			if (complete || strict) && reads > 0 && seq != last+1 {
				violate("demux:gap", fmt.Sprintf("connection of %s delivered seq %d after %d although at most a window of datagrams was outstanding (datagram lost inside the listener)", ra, seq, last))
				break
			}
			last = seq
			reads++
			atomic.StoreUint32(&cl.lastRead, seq)
			if complete {
				atomic.AddInt64(&outstanding, -int64(n))
			}
			r.Count("datagrams_read", 1)
			if strict && c.PartRead && cl.idx == victim && (reads == 60 && !c.RingEnd || reads == 1 && c.RingEnd) {
				read60Once.Do(func() { close(read60) })
				<-release2
			}
			if closeAfter > 0 && reads >= closeAfter {
				break
			}
		}
		atomic.AddInt32(&cl.openConn, -1) // marked closed before Close is called: a new connection may appear from now on
		conn.Close()
		cl.cmu.Lock()
		cl.closedConns = append(cl.closedConns, conn)
		cl.cmu.Unlock()
	}
	acceptorDone := make(chan struct{})
	pause := make(chan struct{})
	resume := make(chan struct{})
	arng := rand.New(rand.NewSource(c.Seed + 99))
	go func() {
		defer close(acceptorDone)
		if c.Overflow {
			<-pause
			<-resume
		}
		for {
			conn, err := l.Accept()
			if err != nil {
				return
			}
			atomic.AddInt64(&nConns, 1)
			ca := 0
			if c.Reconn && arng.Intn(2) == 0 {
				ca = 1 + arng.Intn(5)
			}
			readers.Add(1)
			atomic.AddInt64(&handlersSpawned, 1)
			go handle(conn, ca)
		}
	}()
	// overflow phase: more first datagrams than the backlog holds while nobody accepts
	overflowed := map[int]bool{}
	if c.Overflow {
		close(pause)
		for _, cl := range clients {
			cl.sent++
			cl.conn.Write(mk(cl.idx, cl.sent, 12+rng.Intn(100), cl.odd))
			if !readLoopIdle() {
				l.Close()
				return "", "inconclusive: read loop not idle"
			}
		}
		if c.Backlog >= c.Clients && c.Filter != "skipfirst" && c.Filter != "firstonly" {
			// nobody accepts yet and every remote is queued: one of them goes on sending - a hundred small datagrams wait
			// in a connection that has not been accepted; all of them belong to it and must be read from it later
			for _, cl := range clients {
				if cl.odd {
					continue
				}
				for k := 0; k < 99; k++ {
					cl.sent++
					cl.conn.Write(mk(cl.idx, cl.sent, 12, false))
				}
				if !readLoopIdle() {
					l.Close()
					return "", "inconclusive: read loop not idle"
				}
				burstIdx = cl.idx
				r.Count("bursts_into_unaccepted_connections", 1)
				break
			}
		}
		admissible := 0
		for _, cl := range clients {
			if !cl.odd {
				admissible++
			}
		}
		close(resume)
		// the acceptor drains the backlog; wait until it is parked in Accept
		time.Sleep(2 * time.Millisecond)
		for t0 := time.Now(); time.Since(t0) < 5*time.Second; {
			if len(gstate.ParkedIn(gstate.Snapshot(), "udp.(*listener).Accept")) == 1 {
				break
			}
		}
		got := int(atomic.LoadInt64(&nConns))
		want := admissible
		if want > c.Backlog {
			want = c.Backlog
		}
		r.Count("overflow_phases", 1)
		if got > c.Backlog {
			violate("demux:backlog-exceeded", fmt.Sprintf("%d connections were created while nobody accepted, backlog is %d", got, c.Backlog))
		}
		if got < want {
			violate("demux:admissible-not-queued", fmt.Sprintf("only %d connections were created for %d admissible remotes with backlog %d", got, admissible, c.Backlog))
		}
		if admissible > c.Backlog {
			r.Count("refused_by_backlog", int64(admissible-c.Backlog))
		}
		// let the first reads happen, then note which clients got nothing
		time.Sleep(3 * time.Millisecond)
		fmu.Lock()
		for _, cl := range clients {
			if _, ok := firstReads[cl.addr]; !ok {
				overflowed[cl.idx] = true
			}
		}
		fmu.Unlock()
		// retry: an overflowing datagram created nothing, so now that the backlog has room (the acceptor is parked in
		// Accept) the next datagram of such a remote must create a connection from which it can be read
		for _, cl := range clients {
			if !overflowed[cl.idx] || cl.odd {
				continue
			}
			cl.sent++
			cl.conn.Write(mk(cl.idx, cl.sent, 40, false))
			got := false
			for t0 := time.Now(); time.Since(t0) < 5*time.Second && !got; {
				fmu.Lock()
				_, got = firstReads[cl.addr]
				fmu.Unlock()
				if got {
					break
				}
				live := func() int { return int(atomic.LoadInt64(&handlersSpawned) - atomic.LoadInt64(&handlersDone)) }
				if libraryQuiet(live()) && libraryQuiet(live()) {
					fmu.Lock()
					_, got = firstReads[cl.addr]
					fmu.Unlock()
					break
				}
			}
			r.Count("retries_after_overflow", 1)
			if !got {
				violate("demux:no-connection-after-overflow", fmt.Sprintf("client %d (%s): its first datagram overflowed the backlog (and must have created nothing); with the acceptor idle its next datagram created no connection / was never delivered", cl.idx, cl.addr))
				break
			}
		}
	}
	// slow reader: one remote sends more than its connection's receive buffer holds (4 MiB) while the handler does not
	// read. What does not fit is dropped; the connection stays THE connection of that remote: no second one may be
	// created (seen by the handler as demux:duplicate-connection), and later datagrams still reach it.
	if c.SlowRead && victim >= 0 {
		cl := clients[victim]
		for i := 0; i < 600; i++ {
			cl.sent++
			cl.conn.Write(mk(cl.idx, cl.sent, 8000, c.Filter == "skipfirst" && cl.sent == 1))
			if i%32 == 31 && !readLoopIdle() {
				break
			}
		}
		readLoopIdle()
		r.Count("slow_reader_phases", 1)
		releaseOnce.Do(func() { close(release) })
	}
	if c.PartRead && victim >= 0 {
		cl := clients[victim]
		sizes := []int{1000}
		burst := func(n int) bool {
			for i := 0; i < n; i++ {
				cl.sent++
				cl.conn.Write(mk(cl.idx, cl.sent, sizes[i%len(sizes)], false))
				r.Count("datagrams_sent", 1)
				if i%32 == 31 && !readLoopIdle() {
					return false
				}
			}
			return readLoopIdle()
		}
		n1, n2 := 100, 90
		ring := []int{2048, 4096}[int(c.Seed>>8)&1]
		a, b := 1000, 500
		if ring == 4096 {
			a, b = 1200, 1700 // 1202 + 1702 > 2048: the ring has grown to 4096 when the third datagram arrives
		}
		if c.RingEnd {
			sizes = []int{a, b}
			n1, n2 = 2, 1
		}
		ok := burst(n1)
		releaseOnce.Do(func() { close(release) })
		if ok {
			select {
			case <-read60:
				if c.RingEnd {
					sizes = []int{ring - (a + 2) - (b + 2) - 2} // header + payload end exactly on the last byte of the ring
				}
				if burst(n2) {
					r.Count("part_read_phases", 1)
					if c.RingEnd {
						r.Count("ring_end_phases", 1)
						// let the handler drain the connection before anything else arrives for it
						release2Once.Do(func() { close(release2) })
						for t0 := time.Now(); atomic.LoadUint32(&cl.lastRead) < cl.sent && time.Since(t0) < 2*time.Second; {
							time.Sleep(50 * time.Microsecond)
						}
					}
				}
			case <-time.After(5 * time.Second):
				// the handler did not get its 60 datagrams: the strict checks or the completeness check below say why
			}
		}
		release2Once.Do(func() { close(release2) })
	}
	// senders
	var sw sync.WaitGroup
	for _, cl := range clients {
		cl := cl
		sw.Add(1)
		go func() {
			defer sw.Done()
			lr := rand.New(rand.NewSource(c.Seed + int64(cl.idx)))
			for i := 0; i < c.PerCli; i++ {
				size := []int{12, 20, 100, 500, 1200, 1472, 4000, 8192}[lr.Intn(8)]
				if cl.odd {
					// refused by the filter: never read, so never released from the byte budget — keep them tiny and slow
					if i >= 10 {
						return
					}
					size = 12
					time.Sleep(200 * time.Microsecond)
				}
				if complete && !cl.odd {
					t0 := time.Now()
					for cl.sent-atomic.LoadUint32(&cl.lastRead) >= 8 || atomic.LoadInt64(&outstanding)+int64(size) > budget {
						time.Sleep(20 * time.Microsecond)
						if time.Since(t0) > 3*time.Second {
							return // receiver makes no progress: reported by the completeness check below
						}
					}
					if !(c.Filter == "skipfirst" && cl.sent == 0) { // the refused first datagram is never read: not part of the budget
						atomic.AddInt64(&outstanding, int64(size))
					}
				}
				cl.sent++
				cl.conn.Write(mk(cl.idx, cl.sent, size, cl.odd || c.Filter == "skipfirst" && cl.sent == 1 || c.Filter == "firstonly" && !c.Reconn && cl.sent > 1 && lr.Intn(3) == 0))
				r.Count("datagrams_sent", 1)
			}
		}()
	}
	sw.Wait()
	// settle: read loop idle and readers caught up (paced) — bounded, state based
	readLoopIdle()
	if complete {
		for t0 := time.Now(); time.Since(t0) < 3*time.Second; {
			done := true
			for _, cl := range clients {
				if !cl.odd && atomic.LoadUint32(&cl.lastRead) < cl.sent {
					done = false
				}
			}
			if done {
				break
			}
			time.Sleep(100 * time.Microsecond)
		}
	} else {
		time.Sleep(5 * time.Millisecond)
	}
	vmu.Lock()
	k, d := vkey, vdesc
	vmu.Unlock()
	if k == "" && complete {
		for _, cl := range clients {
			if cl.odd {
				r.Count("refused_by_filter", 1)
				continue
			}
			if lr := atomic.LoadUint32(&cl.lastRead); lr < cl.sent {
				k, d = "demux:lost", fmt.Sprintf("client %d (%s) sent %d datagrams (window <= 8 outstanding), its connection delivered up to %d and the listener is idle", cl.idx, cl.addr, cl.sent, lr)
			}
		}
		fmu.Lock()
		for _, cl := range clients {
			if cl.odd {
				continue
			}
			first, ok := firstReads[cl.addr]
			want := uint32(1)
			if c.Filter == "skipfirst" {
				want = 2 // seq 1 is refused by the filter and creates nothing; seq 2 is the first admitted datagram
			}
			if ok && first != want {
				k, d = "demux:first-datagram", fmt.Sprintf("the first datagram read from the connection of client %d is seq %d, expected %d", cl.idx, first, want)
			}
			if !ok {
				k, d = "demux:no-connection", fmt.Sprintf("client %d (%s) is admissible and sent %d datagrams but no connection ever delivered one", cl.idx, cl.addr, cl.sent)
			}
		}
		fmu.Unlock()
	}
	if k != "" {
		if dr, ok := sockq.Drops(listenerPort); !ok || dr > 0 {
			r.Count("cases_with_kernel_drops", 1)
			switch k {
			case "demux:gap", "demux:lost", "demux:first-datagram", "demux:no-connection", "demux:no-connection-after-overflow":
				k, d = "", fmt.Sprintf("inconclusive: the kernel dropped %d datagram(s) at the listener socket (ok=%v), a missing datagram proves nothing: %s", dr, ok, k)
			}
		}
	}
	atomic.StoreInt32(&stop, 1)
	l.Close()
	<-acceptorDone
	readers.Wait()
	r.Count("connections", atomic.LoadInt64(&nConns))
	if c.Reconn {
		for _, cl := range clients {
			_ = cl
		}
		r.Count("reconnect_cases", 1)
	}
	_ = nReconn
	return k, d
}

func genCase(rng *rand.Rand) *dcase {
	c := &dcase{Seed: rng.Int63()}
	c.Clients = 2 + rng.Intn(23)
	c.MultiIP = rng.Intn(3) == 0
	c.Backlog = []int{1, 2, 128, 128}[rng.Intn(4)]
	c.Filter = []string{"none", "none", "even", "skipfirst", "firstonly"}[rng.Intn(5)]
	c.Batch = []int{0, 0, 2, 8}[rng.Intn(4)]
	c.Paced = rng.Intn(3) > 0
	c.PerCli = 5 + rng.Intn(60)
	c.Reconn = rng.Intn(3) == 0
	c.Overflow = rng.Intn(3) == 0 && !c.Reconn && c.Filter != "skipfirst"
	c.SlowRead = rng.Intn(6) == 0 && !c.Overflow && !c.Reconn
	c.PartRead = !c.SlowRead && rng.Intn(4) == 0 && !c.Overflow && !c.Reconn && (c.Filter == "none" || c.Filter == "even")
	c.RingEnd = c.PartRead && rng.Intn(2) == 0
	if c.Backlog < c.Clients && !c.Overflow {
		// small backlogs are only meaningful with the overflow phase; otherwise keep room for every remote
		c.Backlog = 128
	}
	if c.Overflow && rng.Intn(2) == 0 {
		c.Backlog = 128 // overflow phase without overflow: every remote is queued while nobody accepts
	}
	return c
}

func main() {
	tier := flag.String("tier", "quick", "")
	seed := flag.Int64("seed", 1, "")
	shard := flag.Int("shard", 0, "")
	nshard := flag.Int("nshard", 1, "")
	out := flag.String("out", "", "")
	replay := flag.String("replay", "", "")
	flag.Parse()
	_, _ = nshard, replay
	r := res.New("C11")
	r.Rule = "2-24 client sockets on 127.0.0.1 (and the same port on 127.0.0.2, .3, 127.1.0.1 and 127.0.1.1) send tagged datagrams (client, seq, length, filler; sizes 12..8192) to a real loopback listener (every eighth read of a connection handler is a short read into 16 bytes); configurations: one remote overfilling its connection's 4 MiB receive buffer while the handler does not read (slow reader), backlog 1/2/128, accept filter none / first-byte-even, batch reads off/2/8, paced (window <= 8 datagrams or 4 KiB outstanding per client) or burst, connections closed after a few reads and re-created, an overflow phase with more first datagrams than the backlog while nobody accepts; oracle per connection: remote address == tagged sender, strictly increasing seq (across successive connections of a remote too), byte-identical payload, gap-free and complete in paced mode, no second open connection per remote, no connection for filtered remotes, at most backlog connections queued, first read = first admitted datagram; distinct = (case shape) cells"
	r.Assumptions = []string{"Linux loopback UDP does not reorder between one socket pair and does not drop while less than 100 KiB is outstanding in total", "listener idleness is read from the read loop's goroutine state (IO wait, two samples)"}
	n := 40
	if *tier == "thorough" {
		n = 300
	}
	rng := rand.New(rand.NewSource(*seed*1009 + int64(*shard)*61 + 37))
	seen := map[string]int{}
	for i := 0; i < n; i++ {
		c := genCase(rng)
		if *out != "" {
			os.WriteFile(strings.TrimSuffix(*out, ".json")+".case", []byte(fmt.Sprintf("%+v", *c)), 0o644)
		}
		r.Eval(1)
		k, d := runCase(c, r)
		r.DistinctKey(fmt.Sprintf("cl=%d mip=%v bl=%d f=%s b=%d p=%v rc=%v of=%v", c.Clients/4, c.MultiIP, c.Backlog, c.Filter, c.Batch, c.Paced, c.Reconn, c.Overflow) + fmt.Sprintf(" sr=%v pr=%v", c.SlowRead, c.PartRead))
		if k == "" && d != "" {
			r.Inconc(d)
			continue
		}
		if k != "" {
			seen[k]++
			if seen[k] <= 2 {
				r.Violate(k, d, c)
			}
		}
		if i == 0 && *shard == 0 {
			r.Sample(c)
		}
	}
	r.Write(*out)
}
