// Command dl: monitors for deadline.Deadline (C09).
//
//	-mode fake: the package's timer is replaced (verif shim) by a harness-controlled fake with AfterFunc semantics, so
//	            "expiry dispatched by the runtime but callback not yet run" is an explicit state; step sequences are
//	            enumerated exhaustively and sampled; a reference model is compared after every step.
//	-mode real: real runtime timers, Sets issued back to back with near deadlines to provoke natural Stop()==false races.
package main

import (
	"encoding/json"
	"flag"
	"fmt"
	"math/rand"
	"os"
	"time"

	"github.com/pion/transport/v3/deadline"
	"verifharness/internal/gstate"
	"verifharness/internal/res"
)

type fakeTimer struct {
	armed     bool
	stopFalse int64
	stopTrue  int64
}

func (f *fakeTimer) Stop() bool {
	was := f.armed
	f.armed = false
	if was {
		f.stopTrue++
	} else {
		f.stopFalse++
	}
	return was
}

func (f *fakeTimer) Reset(time.Duration) bool {
	was := f.armed
	f.armed = true
	return was
}

const (
	sZero = iota
	sPast
	sFutA
	sFutB
	sFire
	sRunOldest
	sRunNewest
	nSteps
)

var stepNames = []string{"SetZero", "SetPast", "SetFutureA", "SetFutureB", "Fire", "RunOldest", "RunNewest"}

type sim struct {
	d        *deadline.Deadline
	cb       func()
	ft       *fakeTimer
	out      []int // outstanding callbacks: generation that was armed when each fired
	gen      int
	last     int // sZero, sPast, sFutA/B
	lastTime time.Time
	fired    bool // the timer of the current generation has (virtually) expired
	closedCh <-chan struct{}
	maxOut   int
	held     []<-chan struct{} // Done channels handed out while open: what a waiter that called Done() earlier holds
	// blind: nobody looks at the deadline (Done / Err / Deadline are not called) during this step; the model advances all
	// the same and the oracle runs at the next step that looks. An expiry nobody watched is an expiry all the same.
	blind bool
	// the instants this simulation uses for "past", "future A" and "future B" (defaults: an hour ago, 1000 h and 2000 h
	// ahead; random sequences also use instants at the edges of what a time.Time or an int64 of nanoseconds can hold)
	tPast, tA, tB time.Time
}

func newSim() *sim {
	ft := &fakeTimer{}
	d, cb := deadline.VerifNewWithTimer(ft)
	return &sim{d: d, cb: cb, ft: ft, last: sZero, tPast: past, tA: farA, tB: farB}
}

func isClosed(ch <-chan struct{}) bool {
	select {
	case <-ch:
		return true
	default:
		return false
	}
}

var farA = time.Now().Add(1000 * time.Hour)
var farB = time.Now().Add(2000 * time.Hour)
var past = time.Now().Add(-time.Hour)

// apply returns (applicable, violation key, description)
func (s *sim) applyRaw(st int) (bool, string, string) {
	var prevClosed bool
	var prevCh <-chan struct{}
	if !s.blind {
		prevClosed = isClosed(s.d.Done())
		prevCh = s.d.Done()
		if !prevClosed && (len(s.held) == 0 || s.held[len(s.held)-1] != prevCh) {
			s.held = append(s.held, prevCh)
		}
	}
	switch st {
	case sZero, sPast, sFutA, sFutB:
		t := time.Time{}
		switch st {
		case sPast:
			t = s.tPast
		case sFutA:
			t = s.tA
		case sFutB:
			t = s.tB
		}
		s.d.Set(t)
		s.gen++
		s.last = st
		s.lastTime = t
		s.fired = false
		if !s.blind && prevClosed && st != sPast {
			if s.d.Done() == prevCh {
				return true, "deadline:channel-reused", "Set after expiry returned the already closed Done channel"
			}
		}
	case sFire:
		if !s.ft.armed {
			return false, "", ""
		}
		s.ft.armed = false
		s.out = append(s.out, s.gen)
		s.fired = true
		if len(s.out) > s.maxOut {
			s.maxOut = len(s.out)
		}
	case sRunOldest:
		if len(s.out) == 0 {
			return false, "", ""
		}
		s.out = s.out[1:]
		s.cb()
	case sRunNewest:
		if len(s.out) == 0 {
			return false, "", ""
		}
		s.out = s.out[:len(s.out)-1]
		s.cb()
	}
	if s.blind {
		return true, "", ""
	}
	// oracle
	closed := isClosed(s.d.Done())
	mayBeClosed := s.last == sPast || ((s.last == sFutA || s.last == sFutB) && s.fired)
	if closed && !mayBeClosed {
		why := "early"
		if s.last == sZero {
			why = "after-zero"
		}
		return true, "deadline:signalled-" + why, fmt.Sprintf("Done is closed although the latest Set is %s and its timer has not expired (a stale callback signalled)", stepNames[s.last])
	}
	if s.last == sPast && !closed {
		return true, "deadline:past-not-signalled", "Set(past) left Done open"
	}
	if (s.last == sFutA || s.last == sFutB) && s.fired && len(s.out) == 0 && !closed {
		return true, "deadline:expiry-lost", "the latest timer expired and every dispatched callback has run, but Done is still open"
	}
	if closed {
		// the deadline has expired: every waiter that obtained Done() since the previous expiry must be released
		for _, ch := range s.held {
			if !isClosed(ch) {
				return true, "deadline:waiter-orphaned", "the deadline has expired (Done() is closed) but a Done channel handed out earlier, while the deadline had not expired, is still open: a waiter holding it is never released"
			}
		}
		s.held = s.held[:0]
	}
	if (s.d.Err() != nil) != closed {
		return true, "deadline:err-mismatch", fmt.Sprintf("Err()=%v while Done closed=%v", s.d.Err(), closed)
	}
	dt, ok := s.d.Deadline()
	if ok != !s.lastTime.IsZero() || !dt.Equal(s.lastTime) {
		return true, "deadline:wrong-deadline", fmt.Sprintf("Deadline() = %v,%v after %s", dt, ok, stepNames[s.last])
	}
	return true, "", ""
}

// runSeq: lookLast = the deadline is looked at only during the last step (everything before happens unobserved).
func runSeq(seq []int, r *res.Result, lookLast bool) (int, string, string, *sim) {
	s := newSim()
	for i, st := range seq {
		s.blind = lookLast && i < len(seq)-1
		ok, key, desc := s.applyFix(st)
		if !ok {
			return i, "skip", "", s
		}
		if key != "" {
			return i, key, desc, s
		}
	}
	return len(seq), "", "", s
}

func (s *sim) applyFix(st int) (ok bool, key, desc string) {
	defer func() {
		if p := recover(); p != nil {
			ok, key, desc = true, "deadline:panic", fmt.Sprint(p)
		}
	}()
	o, k, d := s.applyRaw(st)
	return o, k, d
}

func names(seq []int) []string {
	var o []string
	for _, s := range seq {
		o = append(o, stepNames[s])
	}
	return o
}

func fakeMode(tier string, seed int64, shard, nshard int, r *res.Result) {
	depth := 7
	if tier == "thorough" {
		depth = 9
	}
	seq := make([]int, depth)
	var viol = map[string]int{}
	count := int64(0)
	var rec func(d int, s *sim)
	// stateless re-execution is cheap here; enumerate prefixes by DFS, re-running each complete sequence
	var enum func(d int)
	enum = func(d int) {
		if d == depth {
			count++
			if int(count)%nshard != shard {
				return
			}
			for _, lookLast := range []bool{false, true} {
				n, key, desc, s := runSeq(seq, r, lookLast)
				if key == "skip" {
					return
				}
				r.Eval(1)
				r.Max("max_outstanding_callbacks", int64(s.maxOut))
				r.Count("stop_false_paths", s.ft.stopFalse)
				r.Count("stop_true_paths", s.ft.stopTrue)
				if lookLast {
					r.Count("sequences_observed_at_the_end_only", 1)
				}
				if key != "" {
					viol[key]++
					if viol[key] <= 2 {
						w := map[string]interface{}{"steps": names(seq[:n+1])}
						if lookLast {
							w["look"] = "last"
							desc += " (the deadline was not looked at before the last step)"
						}
						r.Violate(key, fmt.Sprintf("after %v: %s", names(seq[:n+1]), desc), w)
					}
					break
				}
			}
			return
		}
		for st := 0; st < nSteps; st++ {
			seq[d] = st
			enum(d + 1)
		}
	}
	_ = rec
	enum(0)
	r.Count("exhaustive_sequences_depth", 0)
	r.Max("max_exhaustive_depth", int64(depth))
	// random long sequences
	rng := rand.New(rand.NewSource(seed*71 + int64(shard)))
	n := 25000
	if tier == "thorough" {
		n = 1200000
	}
	for i := 0; i < n/nshard; i++ {
		s := newSim()
		if i%4 == 3 {
			s.tPast = []time.Time{time.Unix(0, 0), time.Unix(0, 1), time.Date(1600, 1, 1, 0, 0, 0, 0, time.UTC), time.Unix(1, 0), time.Date(1, 1, 1, 0, 0, 1, 0, time.UTC)}[rng.Intn(5)]
			s.tA = []time.Time{time.Date(2300, 1, 1, 0, 0, 0, 0, time.UTC), time.Date(9000, 1, 1, 0, 0, 0, 0, time.UTC), farA}[rng.Intn(3)]
			s.tB = []time.Time{time.Date(2263, 1, 1, 0, 0, 0, 0, time.UTC), time.Unix(1<<40, 0), farB}[rng.Intn(3)]
			r.Count("sequences_with_extreme_instants", 1)
		}
		var done []int
		var looks []bool
		pBlind := []int{0, 2, 4}[i%3] // a third of the sequences look at every step, the others at every second / fourth on average
		for j := 0; j < 40; j++ {
			st := rng.Intn(nSteps)
			if rng.Intn(3) == 0 {
				st = sFire
			}
			s.blind = pBlind > 0 && rng.Intn(pBlind) != 0
			ok, key, desc := s.applyFix(st)
			if !ok {
				continue
			}
			done = append(done, st)
			looks = append(looks, !s.blind)
			if key != "" {
				viol[key]++
				if viol[key] <= 2 {
					r.Violate(key, fmt.Sprintf("after %v: %s", names(done), desc), map[string]interface{}{"steps": names(done), "looks": looks, "past": s.tPast, "future_a": s.tA, "future_b": s.tB})
				}
				break
			}
		}
		r.Eval(1)
		r.Max("max_outstanding_callbacks", int64(s.maxOut))
		r.Count("stop_false_paths", s.ft.stopFalse)
		r.Count("stop_true_paths", s.ft.stopTrue)
		if i < 2000 {
			r.DistinctKey(fmt.Sprint(done))
		}
		if i == 0 && shard == 0 {
			r.Sample(names(done))
		}
	}
}

var replayTimes [3]*time.Time

func replaySeq(namesIn []string, look string, looks []bool, r *res.Result) {
	idx := map[string]int{}
	for i, n := range stepNames {
		idx[n] = i
	}
	s := newSim()
	if replayTimes[0] != nil {
		s.tPast = *replayTimes[0]
	}
	if replayTimes[1] != nil {
		s.tA = *replayTimes[1]
	}
	if replayTimes[2] != nil {
		s.tB = *replayTimes[2]
	}
	var done []int
	for k, n := range namesIn {
		st := idx[n]
		s.blind = false
		if look == "last" {
			s.blind = k < len(namesIn)-1
		} else if k < len(looks) {
			s.blind = !looks[k]
		}
		ok, key, desc := s.applyFix(st)
		if !ok {
			continue
		}
		done = append(done, st)
		if key != "" {
			r.Violate(key, fmt.Sprintf("after %v: %s", names(done), desc), map[string]interface{}{"steps": names(done)})
			return
		}
	}
}

// ---------- real timers ----------

func realMode(tier string, seed int64, shard, nshard int, r *res.Result) {
	rng := rand.New(rand.NewSource(seed*91 + int64(shard)))
	iters := 60000
	if tier == "thorough" {
		iters = 600000
	}
	d := deadline.New()
	viol := map[string]int{}
	report := func(key, desc string, hist []string) {
		viol[key]++
		if viol[key] <= 2 {
			r.Violate(key, desc, map[string]interface{}{"recent_sets": hist})
		}
	}
	var hist []string
	for i := 0; i < iters/nshard; i++ {
		if viol["deadline:expiry-lost"] >= 3 {
			break // every further lost expiry costs a 10 s wait; three witnesses are enough
		}
		kind := rng.Intn(4)
		var t time.Time
		switch kind {
		case 0:
		case 1:
			t = time.Now().Add(-time.Hour)
		case 2:
			t = time.Now().Add(time.Duration(30+rng.Intn(270)) * time.Microsecond)
		case 3:
			t = time.Now().Add(time.Hour)
		}
		wasClosed := isClosed(d.Done())
		oldCh := d.Done()
		d.Set(t)
		afterSet := time.Now()
		r.Count("real_sets", 1)
		hist = append(hist, fmt.Sprintf("%s", []string{"zero", "past", "near", "far"}[kind]))
		if len(hist) > 12 {
			hist = hist[1:]
		}
		ch := d.Done()
		if wasClosed && kind != 1 && ch == oldCh {
			report("deadline:channel-reused", "Set after expiry returned the already closed Done channel", hist)
		}
		// observe for a random short period
		spin := rng.Intn(400)
		if kind == 2 && rng.Intn(50) == 0 {
			spin = 60000 // long enough that the near deadline must have fired
		}
		t0 := time.Now()
		sawClosed := false
		var tObs time.Time
		for {
			if isClosed(ch) {
				sawClosed = true
				tObs = time.Now()
				break
			}
			if time.Since(t0) > time.Duration(spin)*time.Microsecond {
				break
			}
		}
		switch kind {
		case 0, 3:
			if sawClosed {
				report("deadline:signalled-stale", fmt.Sprintf("Done closed %v after Set(%s) returned: signalled by the timer of an earlier Set", tObs.Sub(afterSet), []string{"zero", "", "", "far future"}[kind]), hist)
			}
			if d.Err() != nil {
				report("deadline:err-stale", fmt.Sprintf("Err()=%v after Set(%s)", d.Err(), []string{"zero", "", "", "far future"}[kind]), hist)
			}
		case 1:
			if !sawClosed {
				report("deadline:past-not-signalled", "Set(past) left Done open", hist)
			}
		case 2:
			if sawClosed {
				r.Count("real_near_expiries_observed", 1)
				if tObs.Before(t) {
					report("deadline:signalled-early", fmt.Sprintf("Done observed closed %v before the set time", t.Sub(tObs)), hist)
				}
				if tObs.Sub(afterSet) < 50*time.Microsecond+t.Sub(afterSet) {
					r.Count("real_closures_within_50us_of_due", 1)
				}
			} else if spin == 60000 {
				// bounded liveness. On a loaded machine the runtime may run the timer, or schedule its callback goroutine,
				// late: wait (yielding) until Done closes; only 10 s after the deadline, with a canary timer fired and no
				// goroutine inside the timeout callback, is an open Done a lost expiry.
				for t1 := time.Now(); !isClosed(ch) && time.Since(t1) < 10*time.Second; {
					time.Sleep(time.Millisecond)
				}
				if !isClosed(ch) {
					c := make(chan struct{})
					time.AfterFunc(0, func() { close(c) })
					<-c
					inFlight := len(gstate.With(gstate.Snapshot(), "deadline.(*Deadline).timeout")) > 0
					if !isClosed(ch) && !inFlight {
						report("deadline:expiry-lost", "near deadline passed more than 10s ago, a canary timer has fired, no timeout callback is in flight, Done still open", hist)
					}
				}
			}
		}
		if dt, ok := d.Deadline(); ok != !t.IsZero() || !dt.Equal(t) {
			report("deadline:wrong-deadline", fmt.Sprintf("Deadline()=%v,%v want %v", dt, ok, t), hist)
		}
		if i%1000 == 0 {
			r.DistinctKey(fmt.Sprint(hist))
		}
	}
	r.Eval(int64(iters / nshard))
}

func main() {
	mode := flag.String("mode", "fake", "")
	tier := flag.String("tier", "quick", "")
	seed := flag.Int64("seed", 1, "")
	shard := flag.Int("shard", 0, "")
	nshard := flag.Int("nshard", 1, "")
	out := flag.String("out", "", "")
	replay := flag.String("replay", "", "")
	flag.Parse()
	r := res.New("C09")
	r.Rule = "fake-timer part: all sequences over {SetZero, SetPast, SetFutureA, SetFutureB, Fire, RunOldest, RunNewest} to depth 7 (quick) / 9 (thorough) every sequence run twice (the deadline looked at after every step / only during the last step), plus random sequences of length 40 in which a step is looked at always, every second or every fourth time on average, the package's timer replaced by a harness fake so that dispatched-but-not-run callbacks are explicit; model {last Set, fired, outstanding} compared after every step (never early, never stale, past => closed, fired and nothing outstanding => closed, fresh channel after expiry, Err <=> closed, Deadline()); real-timer part: back-to-back Sets of zero/past/near(30-300us)/far with observation of Done; distinct = distinct applicable step sequences"
	r.Assumptions = []string{"the fake implements time.AfterFunc semantics for Stop/Reset return values", "timer_js.go cannot run here", "pending is a uint8: more than 255 outstanding callbacks are outside the explored range"}
	if *replay != "" {
		b, _ := os.ReadFile(*replay)
		var w struct {
			Witness struct {
				Steps []string   `json:"steps"`
				Look  string     `json:"look"`
				Looks []bool     `json:"looks"`
				Past  *time.Time `json:"past"`
				FutA  *time.Time `json:"future_a"`
				FutB  *time.Time `json:"future_b"`
			} `json:"witness"`
		}
		if err := json.Unmarshal(b, &w); err != nil {
			fmt.Fprintln(os.Stderr, err)
			os.Exit(2)
		}
		r.Eval(1)
		replayTimes = [3]*time.Time{w.Witness.Past, w.Witness.FutA, w.Witness.FutB}
		replaySeq(w.Witness.Steps, w.Witness.Look, w.Witness.Looks, r)
		r.Write(*out)
		return
	}
	if *mode == "fake" {
		fakeMode(*tier, *seed, *shard, *nshard, r)
	} else {
		realMode(*tier, *seed, *shard, *nshard, r)
	}
	r.Write(*out)
}
