// Command pbsched: schedule exploration of packetio.Buffer (C08) with the cooperative scheduler (flavour C).
// Oracle: (1) at a quiescent point no reader is parked while a packet it could take is buffered / after Close /
// with a passed deadline in force; (2) the completed operations are linearizable against queue+closed+deadline.
package main

import (
	"encoding/json"
	"errors"
	"flag"
	"fmt"
	"io"
	"math/rand"
	"net"
	"os"
	"strings"
	"sync"
	"sync/atomic"
	"time"

	"github.com/anishathalye/porcupine"
	"github.com/pion/transport/v3/deadline"
	"github.com/pion/transport/v3/packetio"
	"verifharness/internal/gstate"
	"verifharness/internal/res"
	"verifharness/internal/sched"
)

type scen struct {
	Readers  int      `json:"readers"`
	Reads    int      `json:"reads_per_reader"`
	Writers  int      `json:"writers"`
	Packets  int      `json:"packets_per_writer"`
	Close    bool     `json:"close"`
	Fill     bool     `json:"exact_fill,omitempty"` // writer 0's first packet is 2046 bytes: with its 2-byte header it fills the initial 2048-byte ring exactly
	Short    int      `json:"short_readers,omitempty"` // bit r set: reader r reads with a 1-byte slice (every read is a short read)
	Deadline string   `json:"deadline,omitempty"` // "", past, far, zero, past-then-zero
	Strategy string   `json:"strategy"`
	Seed     int64    `json:"seed"`
	Trace    []string `json:"trace,omitempty"`
	Prefix   []int    `json:"prefix,omitempty"`
}

type cin struct {
	Op   string // w r close dl
	ID   int
	DL   string
	Must bool // read: a passed deadline was in force when the call began and no Set overlapped the read
}
type cout struct {
	ID  int // read: id | -1 EOF | -2 timeout | -3 other ; write: 0 ok | -1 refused
	Err string
}
type qstate struct {
	q      string
	closed bool
	past   bool
}

func model() porcupine.Model {
	return porcupine.Model{
		Init: func() interface{} { return qstate{} },
		Step: func(st, in, out interface{}) (bool, interface{}) {
			s := st.(qstate)
			i := in.(cin)
			o := out.(cout)
			switch i.Op {
			case "close":
				s.closed = true
				return true, s
			case "dl":
				s.past = i.DL == "past"
				return true, s
			case "w":
				if s.closed {
					return o.ID == -1, s
				}
				if o.ID != 0 {
					return false, s
				}
				s.q += string(rune(i.ID))
				return true, s
			default: // read
				if o.ID == -2 {
					return s.past, s
				}
				if i.Must {
					// the deadline had passed before this read was called and was not changed during it:
					// every such read fails with a timeout (a read already in flight when the deadline passes may still return data)
					return false, s
				}
				if len(s.q) > 0 {
					rs := []rune(s.q)
					if int(rs[0]) != o.ID {
						return false, s
					}
					s.q = string(rs[1:])
					return true, s
				}
				return s.closed && o.ID == -1, s
			}
		},
		DescribeOperation: func(in, out interface{}) string {
			return fmt.Sprintf("%v->%v", in, out)
		},
	}
}

var clock int64

func tick() int64 { return atomic.AddInt64(&clock, 1) }

type result struct {
	key, desc string
	trace     []string
	steps     int
	outcome   sched.Outcome
	dfs       *sched.DFS
	parkedMax int
	hist      []string
	diverged  bool
}

func isTimeout(err error) bool {
	var ne net.Error
	return errors.As(err, &ne) && ne.Timeout()
}

func runOne(sc *scen, st sched.Strategy, settle bool, hit map[int]bool) result {
	s := sched.New(st)
	s.Settle = settle
	s.MaxSteps = 400
	packetio.VerifYield = s.Yield
	deadline.VerifYield = s.Yield
	b := packetio.NewBuffer()
	var mu sync.Mutex
	var ops []porcupine.Operation
	rec := func(o porcupine.Operation) {
		mu.Lock()
		ops = append(ops, o)
		mu.Unlock()
	}
	var wg sync.WaitGroup
	var closeDone, dlPastDone, dlClearDone int32
	for r := 0; r < sc.Readers; r++ {
		r := r
		wg.Add(1)
		s.Go(fmt.Sprintf("R%d", r), func() {
			defer wg.Done()
			buf := make([]byte, 4096)
			if sc.Short>>uint(r)&1 == 1 {
				buf = buf[:1]
			}
			for k := 0; k < sc.Reads; k++ {
				t0 := tick()
				n, err := b.Read(buf)
				t1 := tick()
				o := cout{}
				switch {
				case err == nil && (n == 2 || n == 2046):
					o.ID = int(buf[0])
				case errors.Is(err, io.ErrShortBuffer) && n == 1 && len(buf) == 1:
					// a short read consumes its packet like any other read
					o.ID = int(buf[0])
					err = nil
				case err == io.EOF:
					o.ID = -1
				case isTimeout(err):
					o.ID = -2
				default:
					o = cout{ID: -3, Err: fmt.Sprint(n, err)}
				}
				rec(porcupine.Operation{ClientId: r, Input: cin{Op: "r"}, Call: t0, Output: o, Return: t1})
				if err != nil {
					return
				}
			}
		})
	}
	for w := 0; w < sc.Writers; w++ {
		w := w
		wg.Add(1)
		s.Go(fmt.Sprintf("W%d", w), func() {
			defer wg.Done()
			for k := 0; k < sc.Packets; k++ {
				id := 1 + w*sc.Packets + k
				t0 := tick()
				pl := []byte{byte(id), 0xAB}
				if sc.Fill && w == 0 && k == 0 {
					pl = make([]byte, 2046)
					pl[0], pl[1] = byte(id), 0xAB
				}
				_, err := b.Write(pl)
				t1 := tick()
				o := cout{}
				if err != nil {
					o.ID = -1
				}
				rec(porcupine.Operation{ClientId: 10 + w, Input: cin{Op: "w", ID: id}, Call: t0, Output: o, Return: t1})
			}
		})
	}
	if sc.Close {
		wg.Add(1)
		s.Go("C", func() {
			defer wg.Done()
			t0 := tick()
			b.Close()
			t1 := tick()
			atomic.StoreInt32(&closeDone, 1)
			rec(porcupine.Operation{ClientId: 20, Input: cin{Op: "close"}, Call: t0, Output: cout{}, Return: t1})
		})
	}
	if sc.Deadline != "" {
		wg.Add(1)
		s.Go("D", func() {
			defer wg.Done()
			set := func(kind string) {
				var t time.Time
				switch kind {
				case "past":
					t = time.Now().Add(-time.Hour)
				case "far":
					t = time.Now().Add(time.Hour)
				}
				t0 := tick()
				b.SetReadDeadline(t)
				t1 := tick()
				rec(porcupine.Operation{ClientId: 21, Input: cin{Op: "dl", DL: kind}, Call: t0, Output: cout{}, Return: t1})
			}
			switch sc.Deadline {
			case "zero-past": // cleared, then set to a passed time: a reader that parked before the clear must be released too
				set("zero")
				set("past")
				atomic.StoreInt32(&dlPastDone, 1)
			case "far-zero-past":
				set("far")
				set("zero")
				set("past")
				atomic.StoreInt32(&dlPastDone, 1)
			case "past-past": // a passed deadline set again while the first one is already exceeded
				set("past")
				set("past")
				atomic.StoreInt32(&dlPastDone, 1)
			case "far-past-past":
				set("far")
				set("past")
				set("past")
				atomic.StoreInt32(&dlPastDone, 1)
			case "past-then-zero":
				set("past")
				atomic.StoreInt32(&dlPastDone, 1)
				set("zero")
				atomic.StoreInt32(&dlClearDone, 1)
			default:
				set(sc.Deadline)
				if sc.Deadline == "past" {
					atomic.StoreInt32(&dlPastDone, 1)
				}
			}
		})
	}
	out := s.Run(3 * time.Second)
	res := result{trace: s.Trace(), steps: s.Steps(), outcome: out, diverged: s.Diverged}
	if d, ok := st.(*sched.DFS); ok {
		res.dfs = d
	}
	if out == sched.Quiescent {
		// state predicate at the quiescent point
		// a pending reader counts as parked only when its goroutine really sits in Buffer.Read's select (two samples)
		parked := 0
		inSelect := func() map[int64]bool {
			m := map[int64]bool{}
			for _, g := range gstate.Snapshot() {
				if g.State == "select" && g.Has("packetio.(*Buffer).Read") {
					m[g.ID] = true
				}
			}
			return m
		}
		s1, s2 := inSelect(), inSelect()
		for _, t := range s.Pending() {
			if strings.HasPrefix(t.Name, "R") && s1[t.GoID] && s2[t.GoID] {
				parked++
			}
		}
		res.parkedMax = parked
		cnt := b.Count()
		pastInForce := atomic.LoadInt32(&dlPastDone) == 1 && atomic.LoadInt32(&dlClearDone) == 0 && sc.Deadline != "past-then-zero" || sc.Deadline == "past-then-zero" && atomic.LoadInt32(&dlPastDone) == 1 && atomic.LoadInt32(&dlClearDone) == 0
		switch {
		case parked > 0 && atomic.LoadInt32(&closeDone) == 1:
			res.key, res.desc = "buffer:parked-after-close", fmt.Sprintf("%d reader(s) still parked in Read at a quiescent point although Close has returned", parked)
		case parked > 0 && pastInForce:
			res.key, res.desc = "buffer:parked-past-deadline", fmt.Sprintf("%d reader(s) parked in Read although a passed read deadline is in force", parked)
		case parked > 0 && cnt > 0:
			res.key, res.desc = "buffer:lost-wakeup", fmt.Sprintf("%d reader(s) parked in Read at a quiescent point while Count()=%d and no deadline has passed", parked, cnt)
		}
	}
	// the history of operations completed before the harness releases anything
	mu.Lock()
	h := append([]porcupine.Operation{}, ops...)
	mu.Unlock()
	for _, p := range s.PointsHit() {
		hit[p] = true
	}
	// release everything
	s.Stop()
	b.SetReadDeadline(time.Now().Add(-time.Hour))
	b.Close()
	done := make(chan struct{})
	go func() { wg.Wait(); close(done) }()
	select {
	case <-done:
	case <-time.After(2 * time.Second):
	}
	for _, o := range h {
		res.hist = append(res.hist, fmt.Sprintf("c%d[%d,%d]%v->%v", o.ClientId, o.Call, o.Return, o.Input, o.Output))
	}
	// reads that began after Set(past) had returned, with no other Set during the read, must time out
	for k, o := range h {
		in := o.Input.(cin)
		if in.Op != "r" {
			continue
		}
		var last *porcupine.Operation
		for j := range h {
			d := h[j]
			if d.Input.(cin).Op == "dl" && d.Return < o.Call && (last == nil || d.Call > last.Call) {
				last = &h[j]
			}
		}
		if last == nil || last.Input.(cin).DL != "past" {
			continue
		}
		overl := false
		for _, d := range h {
			if d.Input.(cin).Op == "dl" && d.Call > last.Call && d.Call < o.Return {
				overl = true
			}
		}
		if !overl {
			in.Must = true
			h[k].Input = in
		}
	}
	if res.key == "" && out != sched.TimedOut {
		for _, o := range h {
			if oc := o.Output.(cout); oc.ID == -3 {
				res.key, res.desc = "buffer:unexpected-result", "Read returned "+oc.Err
			}
		}
		if res.key == "" {
			pr, _ := porcupine.CheckOperationsVerbose(model(), h, 5*time.Second)
			switch pr {
			case porcupine.Illegal:
				res.key, res.desc = "buffer:not-linearizable", "completed operations are not linearizable against queue+closed+deadline (EOF with packets left, timeout without a passed deadline, data after a passed deadline, wrong order, ...)"
			case porcupine.Unknown:
				res.outcome = sched.TimedOut
			}
		}
	}
	return res
}

func genScen(rng *rand.Rand) *scen {
	sc := &scen{Readers: 1 + rng.Intn(3), Reads: 1 + rng.Intn(2), Writers: 1 + rng.Intn(2), Packets: 1 + rng.Intn(3), Seed: rng.Int63()}
	if rng.Intn(2) == 0 {
		sc.Close = true
	}
	if rng.Intn(3) == 0 {
		sc.Short = 1 + rng.Intn(1<<uint(sc.Readers)-1)
	}
	if rng.Intn(6) == 0 {
		sc.Fill = true
	}
	switch rng.Intn(12) {
	case 10:
		sc.Deadline = "zero-past"
	case 11:
		sc.Deadline = "far-zero-past"
	case 8:
		sc.Deadline = "past-past"
	case 9:
		sc.Deadline = "far-past-past"
	case 0:
		sc.Deadline = "past"
	case 1:
		sc.Deadline = "far"
	case 2:
		sc.Deadline = "zero"
	case 3:
		sc.Deadline = "past-then-zero"
	}
	switch rng.Intn(10) {
	case 0, 1, 2:
		sc.Strategy = "random"
	default:
		sc.Strategy = fmt.Sprintf("pct%d", 2+rng.Intn(3))
	}
	return sc
}

func strat(sc *scen) sched.Strategy {
	rng := rand.New(rand.NewSource(sc.Seed))
	switch {
	case sc.Strategy == "random":
		return &sched.Random{Rng: rng}
	case strings.HasPrefix(sc.Strategy, "pct"):
		d := int(sc.Strategy[3] - '0')
		return sched.NewPCT(rng, d, 40)
	case sc.Strategy == "forced":
		return &sched.Forced{Want: sc.Trace}
	}
	return &sched.DFS{Prefix: sc.Prefix, Bound: 2}
}

func main() {
	tier := flag.String("tier", "quick", "")
	seed := flag.Int64("seed", 1, "")
	shard := flag.Int("shard", 0, "")
	nshard := flag.Int("nshard", 1, "")
	out := flag.String("out", "", "")
	replay := flag.String("replay", "", "")
	pts := flag.String("points", "", "points.json of the overlay")
	flag.Parse()
	r := res.New("C08")
	if os.Getenv("DEBUG_SETTLE") != "" {
		n := 0
		sched.DebugSettle = func(l string) {
			if n < 20 {
				fmt.Fprintln(os.Stderr, l)
			}
			n++
		}
	}
	r.Rule = "scenarios of 1-3 readers x 1-2 reads (some readers with a 1-byte slice, so that every read of theirs is a short read), 1-2 writers x 1-3 packets (in a sixth of the scenarios the first packet fills the initial ring exactly), optional Close task, optional SetReadDeadline(past|far|zero|past-then-zero|past-past|far-past-past|zero-past|far-zero-past) task, executed on the real packetio.Buffer under a cooperative scheduler with yield points before every lock/channel/select operation of buffer.go and deadline.go; strategies PCT d=2..4, uniform random, DFS with preemption bound 2 on the smallest scenarios; oracle at quiescent points (parked reader while Count()>0 / after Close / with passed deadline) + linearizability of the completed operations; distinct = distinct schedules (task@point sequences)"
	r.Assumptions = []string{"interleavings inside the Go runtime (direct hand-off to a parked receiver) are below the yield granularity", "blocked is decided from runtime.Stack goroutine states (select, chan receive, sync.Mutex.Lock, ...), sampled three times", "a task released from a real blocking operation runs freely up to its next yield point"}
	var total int
	if *pts != "" {
		if b, err := os.ReadFile(*pts); err == nil {
			var pp []struct {
				ID   int
				File string
			}
			json.Unmarshal(b, &pp)
			for _, p := range pp {
				if p.File == "packetio/buffer.go" || p.File == "deadline/deadline.go" {
					total++
				}
			}
		}
	}
	hit := map[int]bool{}
	seenKeys := map[string]int{}
	one := func(sc *scen, st sched.Strategy, settle bool) result {
		atomic.StoreInt64(&clock, 0)
		rs := runOne(sc, st, settle, hit)
		r.Eval(1)
		r.Count("schedule_steps", int64(rs.steps))
		if rs.diverged {
			r.Count("settle_timeouts", 1)
		}
		r.DistinctKey(strings.Join(rs.trace, " "))
		switch rs.outcome {
		case sched.Quiescent:
			r.Count("quiescent_points_inspected", 1)
			if rs.parkedMax > 0 {
				r.Count("quiescent_points_with_parked_readers", 1)
			}
			r.Max("max_parked_readers", int64(rs.parkedMax))
		case sched.AllDone:
			r.Count("runs_all_done", 1)
		case sched.TimedOut:
			r.Inconc("schedule hit the step/wall limit")
		}
		if rs.key != "" {
			seenKeys[rs.key]++
			if seenKeys[rs.key] <= 2 {
				w := *sc
				w.Trace = rs.trace
				r.Violate(rs.key, rs.desc+" | history: "+strings.Join(rs.hist, "; "), w)
			}
		}
		return rs
	}
	if *replay != "" {
		b, _ := os.ReadFile(*replay)
		var w struct {
			Witness scen `json:"witness"`
		}
		if err := json.Unmarshal(b, &w); err != nil {
			fmt.Fprintln(os.Stderr, err)
			os.Exit(2)
		}
		sc := w.Witness
		for k := 0; k < 30 && r.NViol() == 0; k++ { // select choice inside the runtime is random: retry the forced schedule
			one(&sc, &sched.Forced{Want: sc.Trace}, true)
		}
		for k := 0; k < 300 && r.NViol() == 0; k++ { // then the original strategy with fresh seeds
			s2 := sc
			s2.Seed = sc.Seed + int64(k)
			one(&s2, strat(&s2), false)
		}
		r.Write(*out)
		return
	}
	n := 2000
	if *tier == "thorough" {
		n = 20000
	}
	rng := rand.New(rand.NewSource(*seed*601 + int64(*shard)*43 + 19))
	_ = nshard
	// DFS on the smallest scenarios (one per shard, different shapes)
	shapes := []scen{
		{Readers: 2, Reads: 1, Writers: 1, Packets: 2},
		{Readers: 2, Reads: 2, Writers: 1, Packets: 2},
		{Readers: 1, Reads: 2, Writers: 2, Packets: 1},
		{Readers: 2, Reads: 1, Writers: 1, Packets: 1, Close: true},
		{Readers: 1, Reads: 1, Writers: 1, Packets: 1, Deadline: "past"},
		{Readers: 2, Reads: 1, Writers: 2, Packets: 1},
		{Readers: 2, Reads: 1, Writers: 1, Packets: 2, Close: true},
		{Readers: 2, Reads: 2, Writers: 1, Packets: 2, Close: true},
		{Readers: 2, Reads: 1, Writers: 2, Packets: 1, Short: 3},
		{Readers: 2, Reads: 2, Writers: 1, Packets: 2, Short: 1},
		{Readers: 1, Reads: 1, Writers: 1, Packets: 1, Deadline: "past-past"},
		{Readers: 2, Reads: 1, Writers: 1, Packets: 1, Deadline: "zero-past"},
		{Readers: 1, Reads: 2, Writers: 1, Packets: 2, Fill: true},
		{Readers: 2, Reads: 1, Writers: 1, Packets: 1, Deadline: "past-then-zero"},
	}
	dsc := shapes[*shard%len(shapes)]
	dsc.Strategy = "dfs"
	budget := 600
	if os.Getenv("NODFS") != "" {
		budget = 0
	}
	if *tier == "thorough" {
		budget = 12000
	}
	var prefix []int
	exhausted := false
	for k := 0; k < budget; k++ {
		d := &sched.DFS{Prefix: prefix, Bound: 2}
		c := dsc
		c.Prefix = prefix
		rs := one(&c, d, true)
		r.Count("dfs_schedules", 1)
		if rs.key != "" {
			break
		}
		prefix = d.Next()
		if prefix == nil {
			exhausted = true
			break
		}
	}
	if exhausted {
		r.Count("dfs_frontiers_exhausted", 1)
	}
	for i := 0; i < n; i++ {
		sc := genScen(rng)
		one(sc, strat(sc), false)
		if i == 0 && *shard == 0 {
			r.Sample(sc)
		}
	}
	r.Count("yield_points_total", 0)
	r.Max("max_yield_points_total", int64(total))
	r.Max("max_yield_points_reached", int64(len(hit)))
	r.Write(*out)
}
