package main

import (
	"context"
	"errors"
	"fmt"
	"math/rand"
	"net"
	"runtime/debug"
	"strings"
	"sync"
	"time"

	"github.com/pion/transport/v3/vnet"
	"verifharness/internal/gstate"
	"verifharness/internal/res"
	"verifharness/internal/vn"
)

// C14: delays are lower bounds; FIFO, exactly once, unmodified, no panic, bounded progress.

type dcase struct {
	Kind     string  `json:"kind"` // filter | router
	DelayUs  int     `json:"delay_us"`
	JitterUs int     `json:"jitter_us"`
	Plans    [][]int `json:"plans"`              // per sender: gap in microseconds before each datagram
	NatDrop  bool    `json:"nat_drop,omitempty"` // router2: the LAN router is a 1:1 NAT and every second sender uses a source address without a pair, so its datagrams are dropped (silently) by the NAT in between the others
	Restart  bool    `json:"restart,omitempty"`  // router: Stop and Start again right after the last hand-in, with datagrams still waiting out their delay
	Seed     int64   `json:"seed"`
}

type drec struct {
	sender, seq int
	a           time.Time // stamped immediately before handing the datagram in
	hash        string
	src, dst    string
}

type dfwd struct {
	ptr  vnet.Chunk
	tag  string
	at   time.Time // stamped inside the sink
	hash string
	src  string
	dst  string
}

func waitGap(us int) {
	if us <= 0 {
		return
	}
	d := time.Duration(us) * time.Microsecond
	if us >= 300 {
		time.Sleep(d - 100*time.Microsecond)
	}
	t0 := time.Now()
	for time.Since(t0) < d && us < 300 {
	}
}

func genDelayCase(rng *rand.Rand, kind string) dcase {
	c := dcase{Kind: kind, Seed: rng.Int63()}
	c.DelayUs = []int{0, 0, 1, 50, 1000, 10000, 30000}[rng.Intn(7)]
	if kind == "router" || kind == "router2" || kind == "routerfilter" {
		c.JitterUs = []int{0, 0, 200}[rng.Intn(3)]
	}
	senders := 1
	if rng.Intn(3) == 0 {
		senders = 2 + rng.Intn(3)
	}
	for s := 0; s < senders; s++ {
		var plan []int
		n := 1 + rng.Intn(200)
		if c.DelayUs >= 10000 {
			n = 1 + rng.Intn(40)
		}
		pattern := rng.Intn(5)
		for i := 0; i < n; i++ {
			g := 0
			switch pattern {
			case 0: // burst
				g = 0
			case 1: // spacing << delay
				g = c.DelayUs / 20
			case 2: // spacing ~ delay: arrivals racing the expiry of the head
				g = c.DelayUs + rng.Intn(101) - 50
			case 3: // spacing >> delay (capped so that a case stays short)
				g = c.DelayUs*3 + 200
				if g > 20000 {
					g = 20000
				}
			default:
				g = []int{0, 0, 1, 20, c.DelayUs, c.DelayUs + 30, 500}[rng.Intn(7)]
			}
			if g < 0 {
				g = 0
			}
			plan = append(plan, g)
		}
		c.Plans = append(c.Plans, plan)
	}
	if kind == "router" && c.DelayUs >= 10000 && rng.Intn(2) == 0 {
		c.Restart = true
	}
	if kind == "router2" && rng.Intn(2) == 0 {
		c.NatDrop = true
		if len(c.Plans) < 2 {
			c.Plans = append(c.Plans, append([]int{}, c.Plans[0]...))
		}
	}
	return c
}

var errRestartInconclusive = errors.New("old forwarding goroutine still present")

// routerLoops counts goroutines that are inside a router's forwarding loop (parked or running).
func routerLoops() int {
	n := 0
	for _, g := range gstate.Snapshot() {
		if g.Has("vnet.(*Router).Start.func1") {
			n++
		}
	}
	return n
}

// runDelayCase returns (violation key, description) or "" and updates counters.
func runDelayCase(c dcase, r *res.Result) (string, string) {
	delay := time.Duration(c.DelayUs) * time.Microsecond
	var mu sync.Mutex
	var got []dfwd
	sinkIP := "10.9.0.2"
	sink := &vnet.VerifNIC{StaticIPs: []net.IP{net.ParseIP(sinkIP).To4()}}
	sink.OnChunk = func(ch vnet.Chunk) {
		now := time.Now()
		mu.Lock()
		got = append(got, dfwd{ch, ch.Tag(), now, vn.Hash(ch.UserData()), ch.SourceAddr().String(), ch.DestinationAddr().String()})
		mu.Unlock()
	}
	panicCh := make(chan string, 4)
	var inject func(ch vnet.Chunk)
	var stop func()
	var restart func() error
	parkFn := ""
	nat := false // the path clones the chunk (NAT): identity is by tag, the source is translated
	switch c.Kind {
	case "filter":
		f, err := vnet.NewDelayFilter(sink, delay)
		if err != nil {
			return "delay:ctor", err.Error()
		}
		ctx, cancel := context.WithCancel(context.Background())
		go func() {
			defer func() {
				if p := recover(); p != nil {
					panicCh <- fmt.Sprintf("%v\n%s", p, trimStack(string(debug.Stack())))
				}
			}()
			f.Run(ctx)
		}()
		inject = func(ch vnet.Chunk) { vnet.VerifInject(f, ch) }
		stop = cancel
		parkFn = "vnet.(*DelayFilter).Run"
	case "router2":
		// two routers in series (LAN child behind its parent), each with the minimum delay: a datagram enters the second
		// router only after the first one released it, so the end-to-end lower bound is twice the delay
		wan, err := vnet.NewRouter(&vnet.RouterConfig{CIDR: "10.9.0.0/24", MinDelay: delay, MaxJitter: time.Duration(c.JitterUs) * time.Microsecond, LoggerFactory: vn.Silent()})
		if err != nil {
			return "delay:ctor", err.Error()
		}
		lanCfg := &vnet.RouterConfig{CIDR: "192.168.0.0/24", MinDelay: delay, LoggerFactory: vn.Silent(),
			NATType: &vnet.NATType{MappingBehavior: vnet.EndpointIndependent, FilteringBehavior: vnet.EndpointIndependent}}
		if c.NatDrop {
			lanCfg.NATType = &vnet.NATType{Mode: vnet.NATModeNAT1To1}
			lanCfg.StaticIPs = []string{"10.9.0.50/192.168.0.1"}
		}
		lan, err := vnet.NewRouter(lanCfg)
		if err != nil {
			return "delay:ctor", err.Error()
		}
		if err := wan.AddRouter(lan); err != nil {
			return "delay:ctor", err.Error()
		}
		src := &vnet.VerifNIC{StaticIPs: []net.IP{net.ParseIP("192.168.0.1").To4(), net.ParseIP("192.168.0.9").To4()}, OnChunk: func(vnet.Chunk) {}}
		if err := lan.AddNet(src); err != nil {
			return "delay:ctor", err.Error()
		}
		if err := wan.AddNet(sink); err != nil {
			return "delay:ctor", err.Error()
		}
		if err := wan.Start(); err != nil {
			return "delay:ctor", err.Error()
		}
		inject = func(ch vnet.Chunk) { src.Send(ch) }
		stop = func() { _ = wan.Stop() }
		parkFn = "vnet.(*Router).Start.func1"
		delay *= 2
		nat = true
	case "routerfilter":
		// a delay filter behind a router with the same minimum delay: the filter's delay counts from the datagram's arrival
		// at the filter, i.e. from the moment the router released it, so the end-to-end lower bound is twice the delay
		rt, err := vnet.NewRouter(&vnet.RouterConfig{CIDR: "10.9.0.0/24", MinDelay: delay, MaxJitter: time.Duration(c.JitterUs) * time.Microsecond, LoggerFactory: vn.Silent()})
		if err != nil {
			return "delay:ctor", err.Error()
		}
		f, err := vnet.NewDelayFilter(sink, delay)
		if err != nil {
			return "delay:ctor", err.Error()
		}
		ctx, cancel := context.WithCancel(context.Background())
		go func() {
			defer func() {
				if p := recover(); p != nil {
					panicCh <- fmt.Sprintf("%v\n%s", p, trimStack(string(debug.Stack())))
				}
			}()
			f.Run(ctx)
		}()
		src := &vnet.VerifNIC{StaticIPs: []net.IP{net.ParseIP("10.9.0.1").To4()}, OnChunk: func(vnet.Chunk) {}}
		if err := rt.AddNet(src); err != nil {
			return "delay:ctor", err.Error()
		}
		if err := rt.AddNet(f); err != nil {
			return "delay:ctor", err.Error()
		}
		if err := rt.Start(); err != nil {
			return "delay:ctor", err.Error()
		}
		inject = func(ch vnet.Chunk) { src.Send(ch) }
		stop = func() { cancel(); _ = rt.Stop() }
		parkFn = "vnet.(*Router).Start.func1"
		delay *= 2
	case "router":
		rt, err := vnet.NewRouter(&vnet.RouterConfig{CIDR: "10.9.0.0/24", MinDelay: delay, MaxJitter: time.Duration(c.JitterUs) * time.Microsecond, LoggerFactory: vn.Silent()})
		if err != nil {
			return "delay:ctor", err.Error()
		}
		src := &vnet.VerifNIC{StaticIPs: []net.IP{net.ParseIP("10.9.0.1").To4()}, OnChunk: func(vnet.Chunk) {}}
		if err := rt.AddNet(src); err != nil {
			return "delay:ctor", err.Error()
		}
		if err := rt.AddNet(sink); err != nil {
			return "delay:ctor", err.Error()
		}
		if err := rt.Start(); err != nil {
			return "delay:ctor", err.Error()
		}
		inject = func(ch vnet.Chunk) { src.Send(ch) }
		stop = func() { _ = rt.Stop() }
		restart = func() error {
			if err := rt.Stop(); err != nil {
				return err
			}
			// Stop only signals the forwarding goroutine; it does not wait for it. Starting again while the old goroutine
			// is still inside a pass would run two forwarding loops side by side for a moment (the old one may be handing
			// a datagram to its NIC while the new one hands over the next). The property does not speak about that
			// overlap, so the restart waits until the old goroutine is gone.
			for t0 := time.Now(); len(gstate.ParkedIn(gstate.Snapshot(), "vnet.(*Router).Start.func1")) > 0 || routerLoops() > 0; {
				if time.Since(t0) > 5*time.Second {
					return errRestartInconclusive
				}
				time.Sleep(100 * time.Microsecond)
			}
			return rt.Start()
		}
		parkFn = "vnet.(*Router).Start.func1"
	}
	defer stop()
	nLoops := 1
	if c.Kind == "router2" {
		nLoops = 2
	}

	sent := map[vnet.Chunk]*drec{}
	byTag := map[string]*drec{}
	total := 0
	natDropped := func(s int) bool { return c.Kind == "router2" && c.NatDrop && s%2 == 1 }
	for s, p := range c.Plans {
		if natDropped(s) {
			r.Count("datagrams_dropped_by_nat_in_between", int64(len(p)))
			continue // dropped by the 1:1 NAT (no pair for their source): never forwarded, and must not hold up the others
		}
		total += len(p)
	}
	var smu sync.Mutex
	var wg sync.WaitGroup
	var lastInject time.Time
	for s, plan := range c.Plans {
		wg.Add(1)
		go func(s int, plan []int) {
			defer wg.Done()
			rng := rand.New(rand.NewSource(c.Seed + int64(s)))
			for i, g := range plan {
				waitGap(g)
				size := []int{0, 1, 8, 100, 1200}[rng.Intn(5)]
				pl := vn.Payload(uint64(s)<<32|uint64(i+1), size)
				srcIP := "10.9.0.1"
				if c.Kind == "router2" {
					srcIP = "192.168.0.1"
					if natDropped(s) {
						srcIP = "192.168.0.9"
					}
				}
				ch := vnet.VerifNewChunkUDP(vn.UDP(srcIP, 4000+s), vn.UDP(sinkIP, 5000), pl)
				rec := &drec{sender: s, seq: i, hash: vn.Hash(pl), src: ch.SourceAddr().String(), dst: ch.DestinationAddr().String()}
				smu.Lock()
				sent[ch] = rec
				byTag[ch.Tag()] = rec
				smu.Unlock()
				rec.a = time.Now()
				inject(ch)
				smu.Lock()
				if n := time.Now(); n.After(lastInject) {
					lastInject = n
				}
				smu.Unlock()
				if c.DelayUs > 0 && g > c.DelayUs-100 && g < c.DelayUs+100 {
					r.Count("arrivals_within_100us_of_a_due_time", 1)
				}
			}
		}(s, plan)
	}
	sendersDone := make(chan struct{})
	go func() { wg.Wait(); close(sendersDone) }()
	watchdog := time.After(25 * time.Second)
	var panicMsg string
	lastProgress := time.Now()
	lastN := -1
wait:
	for {
		select {
		case panicMsg = <-panicCh:
			break wait
		case <-sendersDone:
			break wait
		case <-watchdog:
			return "", "inconclusive: senders did not finish within the watchdog"
		case <-time.After(20 * time.Millisecond):
			// a sender may be blocked in the hand-over because the forwarding loop itself is stuck: no datagram came out
			// for delay + 1 s, a canary timer fires, and the loop goroutine is parked (three samples)
			mu.Lock()
			n := len(got)
			mu.Unlock()
			if n != lastN {
				lastN, lastProgress = n, time.Now()
				continue
			}
			if time.Since(lastProgress) > delay+time.Duration(c.JitterUs)*time.Microsecond+time.Second {
				cn := make(chan struct{})
				time.AfterFunc(0, func() { close(cn) })
				<-cn
				stable := 0
				st := ""
				for k := 0; k < 3; k++ {
					ps := gstate.ParkedIn(gstate.Snapshot(), parkFn)
					if len(ps) == nLoops {
						stable++
						st = ps[0].State
					}
					time.Sleep(2 * time.Millisecond)
				}
				mu.Lock()
				n2 := len(got)
				mu.Unlock()
				if stable == 3 && n2 == n {
					return "delay:" + c.Kind + ":stuck", fmt.Sprintf("no datagram was forwarded for %v although %d were handed in and senders are still blocked handing more in; the forwarding loop is parked (%s) and a canary timer fires", time.Since(lastProgress).Round(time.Millisecond), len(sent)-0, st)
				}
			}
		}
	}
	if panicMsg == "" && c.Restart && restart != nil {
		// the router is stopped and started again while datagrams are still waiting out their delay; nothing is handed in
		// meanwhile. Once it runs again, what is queued must still be forwarded (not before its delay)
		if err := restart(); err == errRestartInconclusive {
			return "", "inconclusive: the stopped router's forwarding goroutine did not exit within 5 s"
		} else if err != nil {
			return "delay:" + c.Kind + ":restart-failed", "Stop/Start of a router with queued datagrams failed: " + err.Error()
		}
		r.Count("router_restarts_with_queued_datagrams", 1)
	}
	if panicMsg == "" {
		// bounded progress: everything handed in must come out while the loop is alive
		canary := make(chan struct{})
		smu.Lock()
		due := lastInject.Add(delay + time.Duration(c.JitterUs)*time.Microsecond + time.Second)
		smu.Unlock()
		time.AfterFunc(time.Until(due), func() { close(canary) })
		for {
			mu.Lock()
			n := len(got)
			mu.Unlock()
			if n >= total {
				break
			}
			select {
			case panicMsg = <-panicCh:
			case <-canary:
				// the canary timer due one second after the last datagram became due has fired: is the loop parked?
				stable := true
				for k := 0; k < 3; k++ {
					mu.Lock()
					n2 := len(got)
					mu.Unlock()
					if n2 != n || len(gstate.ParkedIn(gstate.Snapshot(), parkFn)) != nLoops {
						stable = false
					}
					time.Sleep(2 * time.Millisecond)
				}
				if stable {
					return "delay:" + c.Kind + ":stuck", fmt.Sprintf("%d of %d datagrams never forwarded although the forwarding loop is parked and a canary timer due 1s after the last due time has fired", total-n, total)
				}
				select {
				case <-watchdog:
					return "", "inconclusive: not all datagrams forwarded within the watchdog, loop not parked"
				default:
				}
				time.Sleep(5 * time.Millisecond)
				continue
			case <-time.After(200 * time.Microsecond):
				continue
			}
			break
		}
	}
	if panicMsg != "" {
		return "delay:" + c.Kind + ":panic", "forwarding loop panicked: " + panicMsg
	}
	time.Sleep(300 * time.Microsecond) // a duplicate would show up now
	mu.Lock()
	defer mu.Unlock()
	smu.Lock()
	defer smu.Unlock()
	next := make([]int, len(c.Plans))
	seenTag := map[string]bool{}
	for _, g := range got {
		// a datagram is identified by its chunk tag (a faithful copy keeps it), not by the identity of the chunk object
		rec := byTag[g.tag]
		if rec != nil && seenTag[g.tag] {
			return "delay:" + c.Kind + ":duplicate", fmt.Sprintf("datagram sender=%d seq=%d forwarded twice", rec.sender, rec.seq)
		}
		seenTag[g.tag] = true
		if rec != nil && natDropped(rec.sender) {
			return "delay:" + c.Kind + ":nat-drop-forwarded", fmt.Sprintf("datagram sender=%d seq=%d has no 1:1 pair for its source and was forwarded all the same", rec.sender, rec.seq)
		}
		if rec == nil {
			return "delay:" + c.Kind + ":invented", fmt.Sprintf("sink received chunk tag=%s that was never handed in", g.tag)
		}
		if g.hash != rec.hash || (!nat && g.src != rec.src) || g.dst != rec.dst {
			return "delay:" + c.Kind + ":modified", fmt.Sprintf("datagram sender=%d seq=%d was modified", rec.sender, rec.seq)
		}
		if rec.seq != next[rec.sender] {
			return "delay:" + c.Kind + ":order", fmt.Sprintf("sender %d: datagram %d forwarded where %d was expected", rec.sender, rec.seq, next[rec.sender])
		}
		next[rec.sender]++
		slack := g.at.Sub(rec.a) - delay
		r.Min(fmt.Sprintf("min_slack_us_delay_%dus", c.DelayUs), int64(slack/time.Microsecond))
		if slack < 0 {
			return "delay:" + c.Kind + ":early", fmt.Sprintf("datagram sender=%d seq=%d forwarded %v after it was handed in, delay is %v", rec.sender, rec.seq, g.at.Sub(rec.a), delay)
		}
	}
	if len(got) != total {
		return "delay:" + c.Kind + ":lost", fmt.Sprintf("%d of %d datagrams not forwarded", total-len(got), total)
	}
	r.Count("datagrams", int64(total))
	r.Count("cases_"+c.Kind, 1)
	r.DistinctKey(fmt.Sprintf("%s delay=%d jitter=%d senders=%d n=%d", c.Kind, c.DelayUs, c.JitterUs, len(c.Plans), total/10))
	return "", ""
}

func trimStack(s string) string {
	lines := strings.Split(s, "\n")
	var out []string
	for _, l := range lines {
		if strings.Contains(l, "pion/transport") {
			out = append(out, strings.TrimSpace(l))
		}
	}
	if len(out) > 6 {
		out = out[:6]
	}
	return strings.Join(out, " | ")
}

func runDelay(tier string, seed int64, shard, nshard int, r *res.Result, replay *dcase) {
	r.Rule = "arrival plans (bursts, spacing <<, ~, >> delay, arrivals timed at head-due +-50us, 1-4 concurrent senders) against DelayFilter.Run and against a Router with MinDelay/MaxJitter (in half of the two-router cases the inner router is a 1:1 NAT that silently drops every second sender's datagrams in between the others; in half of the router cases with delay >= 10 ms the router is stopped and started again right after the last hand-in, with datagrams still queued), both with recording source/sink NICs; oracle: sink stamp - stamp taken before hand-in >= delay, per-sender FIFO, exactly once, same chunk object and payload hash, recovered panic = violation, bounded progress decided by a canary timer + parked-loop inspection; distinct = (subject, delay, jitter, senders, size class) cells"
	r.Assumptions = []string{"lower bounds compare a stamp taken before hand-in with one taken inside the sink: scheduling delay can only increase the difference", "eventual forwarding is checked as bounded progress (canary due 1s after the last due time, loop parked, 3 samples)"}
	if replay != nil {
		r.Eval(1)
		for k := 0; k < 20; k++ { // the runtime's select choice is random: retry the same plan
			if key, desc := runDelayCase(*replay, r); key != "" {
				r.Violate(key, desc, replay)
				return
			}
		}
		return
	}
	n := 80
	if tier == "thorough" {
		n = 400
	}
	rng := rand.New(rand.NewSource(seed*977 + int64(shard)*13 + 3))
	seen := map[string]int{}
	for i := 0; i < n; i++ {
		kind := "filter"
		if i%3 == 2 {
			kind = "router"
			if i%6 == 5 {
				kind = "router2"
			}
			if i%12 == 8 {
				kind = "routerfilter"
			}
		}
		c := genDelayCase(rng, kind)
		if kind == "filter" && i%16 == 9 {
			// a burst far larger than anything else in the plans waits inside one delay filter at once: nothing bounds the
			// number of datagrams a filter may hold, all of them must come out
			c.DelayUs = 30000
			c.Plans = [][]int{make([]int, 2500)}
			r.Count("large_bursts_into_a_delay_filter", 1)
		}
		r.Eval(1)
		key, desc := runDelayCase(c, r)
		if key == "" && desc != "" {
			r.Inconc(desc)
			continue
		}
		if key != "" {
			seen[key]++
			if seen[key] <= 2 {
				r.Violate(key, desc, c)
			}
			if seen[key] >= 3 {
				break // a stuck or crashed forwarding loop leaves blocked goroutines behind; three witnesses are enough
			}
			continue
		}
		if i < 2 && shard == 0 {
			s := c
			for j := range s.Plans {
				if len(s.Plans[j]) > 10 {
					s.Plans[j] = s.Plans[j][:10]
				}
			}
			r.Sample(s)
		}
	}
}
