package main

import (
	"fmt"
	"math/rand"
	"sync"
	"time"

	"github.com/pion/transport/v3/vnet"
	"verifharness/internal/gstate"
	"verifharness/internal/res"
	"verifharness/internal/vn"
)

// C15: token bucket filter. See DESIGN.md §3 C15 for the soundness argument of the window rule.

type tstep struct {
	GapUs     int  `json:"gap_us"`
	Size      int  `json:"size"`
	SetRate   int  `json:"set_rate,omitempty"`
	SetBurst  int  `json:"set_burst,omitempty"`
	UndoBurst bool `json:"undo_burst,omitempty"` // apply the option that the previous Set(TBFMaxBurst) returned (restores the value before it)
	UndoRate  bool `json:"undo_rate,omitempty"`  // same for TBFRate
	NoSend    bool `json:"no_send,omitempty"`    // only wait and apply SetRate: no datagram is handed in
}

type tcase struct {
	Rate    int     `json:"rate"`
	Burst   int     `json:"burst"`
	Queue   int     `json:"queue"`
	Senders int     `json:"senders"`
	Steps   []tstep `json:"steps"`
	Seed    int64   `json:"seed"`
	// Sibling: a second filter is built from the very same option values and carries a trickle of its own traffic to its
	// own sink while the monitored filter runs. Filters are independent objects: neither may see the other's datagrams.
	Sibling bool `json:"sibling,omitempty"`
}

type tfwd struct {
	ptr  vnet.Chunk
	at   time.Time
	hash string
	n    int
}

func genTBFCase(rng *rand.Rand, multi bool) tcase {
	c := tcase{Seed: rng.Int63(), Senders: 1}
	c.Rate = []int{100_000, 500_000, 1_000_000, 1_000_000, 4_000_000, 20_000_000, 100_000_000}[rng.Intn(7)]
	c.Burst = []int{1500, 3000, 8000, 8000, 20000, 64000}[rng.Intn(6)]
	c.Queue = []int{5000, 20000, 50000, 50000}[rng.Intn(4)]
	if multi {
		c.Senders = 2 + rng.Intn(3)
	}
	size := func() int {
		switch rng.Intn(8) {
		case 0:
			return 0
		case 1:
			return 1
		case 2:
			return c.Burst
		case 3:
			return min(c.Burst+1, 65000)
		case 4:
			return 1 + rng.Intn(min(c.Burst, 1500))
		default:
			return 200 + rng.Intn(1300)
		}
	}
	nph := 3 + rng.Intn(6)
	for p := 0; p < nph; p++ {
		gap := []int{0, 2000, 50000, 99000, 101000, 250000, 96000, 150000}[rng.Intn(8)]
		k := 1 + rng.Intn(12)
		st := tstep{GapUs: gap, Size: size()}
		if !multi && rng.Intn(5) == 0 {
			st.SetRate = []int{100_000, 1_000_000, 10_000_000}[rng.Intn(3)]
		}
		if !multi && rng.Intn(6) == 0 {
			st.SetBurst = []int{1500, 8000, 30000}[rng.Intn(3)]
		}
		c.Steps = append(c.Steps, st)
		for i := 1; i < k; i++ {
			c.Steps = append(c.Steps, tstep{GapUs: []int{0, 0, 0, 300, 3000}[rng.Intn(5)], Size: size()})
		}
		if refillUs := c.Burst * 8 * 1000 / (c.Rate / 1000); !multi && refillUs >= 10000 && refillUs <= 600000 && rng.Intn(2) == 0 {
			// rate set during an idle gap with a backlog queued: drain the bucket and leave a backlog, stay idle for less
			// than the time the bucket needs to fill up (so that the clamp at the burst cannot hide extra credit), call
			// Set(TBFRate) once or twice inside the gap (same or another rate), then one small arrival triggers the drain
			tot := 0
			for tot < c.Burst+min(c.Queue, c.Burst)*3/4 {
				c.Steps = append(c.Steps, tstep{GapUs: 0, Size: min(1400, c.Burst)})
				tot += min(1400, c.Burst)
			}
			g := refillUs * (2 + rng.Intn(3)) / 10
			nset := 1 + rng.Intn(2)
			for k := 0; k < nset; k++ {
				sr := c.Rate
				if rng.Intn(3) == 0 {
					sr = c.Rate * 4 / 5
				}
				c.Steps = append(c.Steps, tstep{GapUs: g / nset, SetRate: sr, NoSend: true})
			}
			c.Steps = append(c.Steps, tstep{GapUs: 0, Size: 10}, tstep{GapUs: min(refillUs*2, 300000), Size: 10})
		}
		if !multi && c.Rate <= 4_000_000 && c.Queue*2 >= c.Burst*5 && rng.Intn(2) == 0 {
			// burst lowered and restored repeatedly with a backlog queued: drain the bucket, fill the queue, then toggle
			// TBFMaxBurst between a quarter and the full burst with a tiny arrival after each Set (a refill only happens on
			// an arrival). Lowering forgets tokens, raising only lifts the cap: no cycle may create credit
			tot := 0
			for tot < c.Burst+c.Queue {
				c.Steps = append(c.Steps, tstep{GapUs: 0, Size: min(1400, c.Burst)})
				tot += min(1400, c.Burst)
			}
			viaUndo := rng.Intn(2) == 0 // restore with the option that Set returned instead of an explicit value
			for k := 0; k < 3+rng.Intn(3); k++ {
				c.Steps = append(c.Steps, tstep{GapUs: 300, Size: 10, SetBurst: max(c.Burst/4, 100)})
				if viaUndo {
					c.Steps = append(c.Steps, tstep{GapUs: 300, Size: 10, UndoBurst: true})
				} else {
					c.Steps = append(c.Steps, tstep{GapUs: 300, Size: 10, SetBurst: c.Burst})
				}
			}
		}
		if refillUs := c.Burst * 8 * 1000 / (c.Rate / 1000); !multi && refillUs <= 100000 && rng.Intn(3) == 0 {
			// burst raised tenfold for a while and restored with the option Set returned (or a rate change undone the same
			// way), after an idle gap long enough to fill the larger bucket; then a burst of arrivals
			if rng.Intn(2) == 0 {
				c.Steps = append(c.Steps, tstep{GapUs: 0, Size: 10, SetBurst: c.Burst * 10}, tstep{GapUs: min(refillUs*12, 400000), Size: 10}, tstep{GapUs: 0, Size: 10, UndoBurst: true})
			} else {
				c.Steps = append(c.Steps, tstep{GapUs: 0, Size: 10, SetRate: c.Rate * 4}, tstep{GapUs: 2000, Size: 10}, tstep{GapUs: 0, Size: 10, UndoRate: true})
			}
			tot := 0
			for tot < 3*c.Burst {
				c.Steps = append(c.Steps, tstep{GapUs: 0, Size: min(1400, c.Burst)})
				tot += min(1400, c.Burst)
			}
		}
		if rng.Intn(3) == 0 {
			// refill-granularity pattern: bucket filled >100ms ago, emptied just before the next refill instant, then hit again just after it
			c.Steps = append(c.Steps, tstep{GapUs: 150000, Size: 10})
			tot := 0
			first := true
			for tot < c.Burst {
				s := min(1400, c.Burst-tot)
				g := 0
				if first {
					g = 95000
					first = false
				}
				c.Steps = append(c.Steps, tstep{GapUs: g, Size: s})
				tot += s
			}
			first = true
			tot = 0
			for tot < c.Burst/2 {
				g := 0
				if first {
					g = 7000
					first = false
				}
				c.Steps = append(c.Steps, tstep{GapUs: g, Size: 1400})
				tot += 1400
			}
		}
	}
	return c
}

func waitParkedTBF(deadline time.Duration) bool {
	t0 := time.Now()
	for {
		// every filter goroutine of the process (one, or two when a sibling filter runs) sits in its select
		total, idle := 0, 0
		for _, g := range gstate.Snapshot() {
			if g.Has("vnet.(*TokenBucketFilter).run") {
				total++
				if g.State == "select" {
					idle++
				}
			}
		}
		if total >= 1 && idle == total {
			return true
		}
		if time.Since(t0) > deadline {
			return false
		}
	}
}

func runTBFCase(c tcase, r *res.Result) (key string, desc string) {
	var mu sync.Mutex
	var got []tfwd
	sink := &vnet.VerifNIC{OnChunk: func(ch vnet.Chunk) {
		now := time.Now()
		mu.Lock()
		got = append(got, tfwd{ch, now, vn.Hash(ch.UserData()), len(ch.UserData())})
		mu.Unlock()
	}}
	opts := []vnet.TBFOption{vnet.TBFRate(c.Rate), vnet.TBFMaxBurst(c.Burst), vnet.TBFQueueSizeInBytes(c.Queue)}
	f, err := vnet.NewTokenBucketFilter(sink, opts...)
	if err != nil {
		return "tbf:ctor", err.Error()
	}
	if c.Sibling {
		var smu2 sync.Mutex
		var sgot []vnet.Chunk
		ssink := &vnet.VerifNIC{OnChunk: func(ch vnet.Chunk) {
			smu2.Lock()
			sgot = append(sgot, ch)
			smu2.Unlock()
		}}
		sib, err := vnet.NewTokenBucketFilter(ssink, opts...)
		if err != nil {
			return "tbf:ctor", err.Error()
		}
		const nsib = 24
		var ssent []vnet.Chunk
		sdone := make(chan struct{})
		go func() {
			defer close(sdone)
			for i := 0; i < nsib; i++ {
				ch := vnet.VerifNewChunkUDP(vn.UDP("10.0.7.1", 7000), vn.UDP("10.0.7.2", 7001), vn.Payload(uint64(7)<<40|uint64(i+1), 9+i%3))
				smu2.Lock()
				ssent = append(ssent, ch)
				smu2.Unlock()
				vnet.VerifInject(sib, ch)
				time.Sleep(time.Duration(200+i*37%400) * time.Microsecond)
			}
		}()
		defer func() {
			<-sdone
			// let the sibling forward what it holds (24 datagrams of about 10 bytes: far below any burst or queue size)
			sib.Set(vnet.TBFMaxBurst(1<<30), vnet.TBFRate(1<<40))
			vnet.VerifInject(sib, vnet.VerifNewChunkUDP(vn.UDP("10.0.7.1", 7000), vn.UDP("10.0.7.2", 7001), nil))
			dl := time.Now().Add(3 * time.Second)
			for time.Now().Before(dl) {
				smu2.Lock()
				n := len(sgot)
				smu2.Unlock()
				if n >= nsib+1 {
					break
				}
				time.Sleep(200 * time.Microsecond)
			}
			sib.Close()
			r.Count("sibling_filter_runs", 1)
			if key != "" || desc != "" {
				return
			}
			smu2.Lock()
			defer smu2.Unlock()
			j := 0
			for _, g := range sgot {
				if len(g.UserData()) == 0 {
					continue
				}
				for j < len(ssent) && ssent[j] != g {
					j++
				}
				if j == len(ssent) {
					key, desc = "tbf:sibling:foreign-or-reordered", "a second filter built from the same option values forwarded a datagram that was not handed to it, or out of order"
					return
				}
				j++
			}
			nfw := 0
			for _, g := range sgot {
				if len(g.UserData()) > 0 {
					nfw++
				}
			}
			if nfw != nsib {
				key, desc = "tbf:sibling:lost", fmt.Sprintf("a second filter built from the same option values forwarded %d of its %d small datagrams although its queue was never near its limit", nfw, nsib)
			}
		}()
	}
	closed := false
	defer func() {
		if !closed {
			f.Close()
		}
	}()
	type sent struct {
		sender, seq, n int
		hash           string
		iter           int
	}
	sentBy := map[vnet.Chunk]*sent{}
	chunkOfTag := map[string]vnet.Chunk{} // a datagram is identified by its chunk tag (a faithful copy keeps it)
	if c.Senders > 1 {
		// order / duplicate / integrity only
		var wg sync.WaitGroup
		var smu sync.Mutex
		for s := 0; s < c.Senders; s++ {
			wg.Add(1)
			go func(s int) {
				defer wg.Done()
				for i, st := range c.Steps {
					waitGap(st.GapUs / (1 + 3*s))
					pl := vn.Payload(uint64(s)<<32|uint64(i+1), st.Size)
					ch := vnet.VerifNewChunkUDP(vn.UDP("10.0.0.1", 1000+s), vn.UDP("10.0.0.2", 2000), pl)
					smu.Lock()
					sentBy[ch] = &sent{sender: s, seq: i, n: st.Size, hash: vn.Hash(pl)}
					chunkOfTag[ch.Tag()] = ch
					smu.Unlock()
					vnet.VerifInject(f, ch)
				}
			}(s)
		}
		wg.Wait()
		f.Set(vnet.TBFMaxBurst(1<<30), vnet.TBFRate(1<<40))
		time.Sleep(120 * time.Millisecond)
		for k := 0; k < 2; k++ {
			vnet.VerifInject(f, vnet.VerifNewChunkUDP(vn.UDP("10.0.0.9", 9), vn.UDP("10.0.0.2", 2000), nil))
		}
		if !waitParkedTBF(5 * time.Second) {
			return "", "inconclusive: filter goroutine not parked after flush"
		}
		mu.Lock()
		defer mu.Unlock()
		next := make([]int, c.Senders)
		seen := map[vnet.Chunk]bool{}
		for _, g := range got {
			orig := chunkOfTag[g.ptr.Tag()]
			sr := sentBy[orig]
			if sr == nil {
				if g.n == 0 {
					continue // flush marker
				}
				return "tbf:invented", "sink received a chunk that was never handed in"
			}
			if seen[orig] {
				return "tbf:duplicate", fmt.Sprintf("datagram sender=%d seq=%d forwarded twice", sr.sender, sr.seq)
			}
			seen[orig] = true
			if g.hash != sr.hash {
				return "tbf:modified", fmt.Sprintf("datagram sender=%d seq=%d modified", sr.sender, sr.seq)
			}
			if sr.seq < next[sr.sender] {
				return "tbf:order", fmt.Sprintf("sender %d: datagram %d forwarded after %d", sr.sender, sr.seq, next[sr.sender]-1)
			}
			next[sr.sender] = sr.seq + 1
		}
		r.Count("multi_sender_runs", 1)
		r.Count("datagrams", int64(len(c.Steps)*c.Senders))
		r.Count("forwarded", int64(len(got)))
		closed = true
		f.Close()
		return "", ""
	}

	// single sender: iterations are observable
	type iter struct {
		a      time.Time // stamp before hand-in (<= the filter's clock read of this iteration)
		u      time.Time // first sink stamp of this iteration
		l      time.Time // last sink stamp of this iteration
		bytes  int
		nfwd   int
		r, b   int
		ch     vnet.Chunk
		fwdIdx [2]int
	}
	rate, burst := c.Rate, c.Burst
	prevRate, prevBurst := rate, burst
	var undoRate, undoBurst vnet.TBFOption
	rateHigh := rate
	var its []iter
	if !waitParkedTBF(5 * time.Second) {
		return "", "inconclusive: filter goroutine not parked at start"
	}
	step := func(st tstep, flush bool) bool {
		waitGap(st.GapUs)
		if st.SetRate > 0 {
			undoRate = f.Set(vnet.TBFRate(st.SetRate))
			prevRate, rate = rate, st.SetRate
			if rate > rateHigh {
				rateHigh = rate
			}
			r.Count("runtime_rate_changes", 1)
		}
		if st.NoSend {
			r.Count("rate_set_while_idle_with_backlog_steps", 1)
			return true
		}
		if st.SetBurst > 0 {
			undoBurst = f.Set(vnet.TBFMaxBurst(st.SetBurst))
			prevBurst, burst = burst, st.SetBurst
			r.Count("runtime_burst_changes", 1)
		}
		if st.UndoBurst && undoBurst != nil {
			undoBurst = f.Set(undoBurst) // the option returned by Set restores the previous burst (and returns its own undo)
			prevBurst, burst = burst, prevBurst
			r.Count("runtime_burst_restored_with_returned_option", 1)
		}
		if st.UndoRate && undoRate != nil {
			undoRate = f.Set(undoRate)
			prevRate, rate = rate, prevRate
			if rate > rateHigh {
				rateHigh = rate
			}
			r.Count("runtime_rate_restored_with_returned_option", 1)
		}
		pl := vn.Payload(uint64(len(its)+1), st.Size)
		ch := vnet.VerifNewChunkUDP(vn.UDP("10.0.0.1", 1000), vn.UDP("10.0.0.2", 2000), pl)
		if !flush {
			sentBy[ch] = &sent{seq: len(its), n: st.Size, hash: vn.Hash(pl), iter: len(its)}
			chunkOfTag[ch.Tag()] = ch
		}
		mu.Lock()
		lo := len(got)
		mu.Unlock()
		it := iter{r: rateHigh, b: burst, ch: ch} // the highest rate in force since the previous arrival
		rateHigh = rate
		it.a = time.Now()
		vnet.VerifInject(f, ch)
		if !waitParkedTBF(5 * time.Second) {
			return false
		}
		mu.Lock()
		hi := len(got)
		for _, g := range got[lo:hi] {
			it.bytes += g.n
		}
		it.nfwd = hi - lo
		it.fwdIdx = [2]int{lo, hi}
		if hi > lo {
			it.u = got[lo].at
			it.l = got[hi-1].at
		}
		mu.Unlock()
		its = append(its, it)
		return true
	}
	for _, st := range c.Steps {
		if !step(st, false) {
			return "", "inconclusive: filter goroutine did not park after an arrival"
		}
	}
	nReal := len(its)
	// flush
	f.Set(vnet.TBFMaxBurst(1<<30), vnet.TBFRate(1<<40))
	rate, burst = 1<<40, 1<<30
	rateHigh = rate
	time.Sleep(120 * time.Millisecond)
	for k := 0; k < 2; k++ {
		if !step(tstep{Size: 0}, true) {
			return "", "inconclusive: filter goroutine did not park after flush"
		}
	}
	mu.Lock()
	defer mu.Unlock()
	// FIFO / exactly once / unmodified; which datagrams never came out
	out := map[vnet.Chunk]bool{}
	last := -1
	for _, g := range got {
		orig := chunkOfTag[g.ptr.Tag()]
		sr := sentBy[orig]
		if sr == nil {
			if g.n == 0 {
				continue
			}
			return "tbf:invented", "sink received a chunk that was never handed in"
		}
		if out[orig] {
			return "tbf:duplicate", fmt.Sprintf("datagram %d forwarded twice", sr.seq)
		}
		out[orig] = true
		if g.hash != sr.hash || g.n != sr.n {
			return "tbf:modified", fmt.Sprintf("datagram %d modified", sr.seq)
		}
		if sr.seq <= last {
			return "tbf:order", fmt.Sprintf("datagram %d forwarded after %d", sr.seq, last)
		}
		last = sr.seq
	}
	// drops: legal only when occupancy at arrival + len reaches the queue size
	occ := 0
	fwdBefore := 0 // bytes forwarded in earlier iterations
	for m := 0; m < nReal; m++ {
		it := its[m]
		sr := sentBy[it.ch]
		q := occ - fwdBefore
		if !out[it.ch] {
			r.Count("drops", 1)
			if q+sr.n < c.Queue {
				return "tbf:dropped-with-room", fmt.Sprintf("datagram %d (len %d) never came out although the queue held %d of %d bytes when it arrived", m, sr.n, q, c.Queue)
			}
			r.Count("drops_with_full_queue", 1)
		} else {
			occ += sr.n
		}
		fwdBefore += it.bytes
	}
	// rate bound
	const eps = 1.0
	for m := 0; m < nReal; m++ {
		if its[m].bytes > its[m].b {
			return "tbf:iteration-over-burst", fmt.Sprintf("iteration %d forwarded %d bytes at once, burst is %d", m, its[m].bytes, its[m].b)
		}
	}
	tightest := 1e18
	for m1 := 0; m1 < nReal; m1++ {
		sum := 0
		rmax, bmax := 0, its[m1].b
		for m2 := m1 + 1; m2 < nReal; m2++ {
			sum += its[m2].bytes
			if its[m2].r > rmax {
				rmax = its[m2].r
			}
			if its[m2].b > bmax {
				bmax = its[m2].b
			}
			if its[m2].nfwd == 0 {
				continue
			}
			dt := its[m2].u.Sub(its[m1].a).Seconds()
			allowed := float64(bmax) + float64(rmax)/8*dt + eps
			r.Count("windows_checked", 1)
			if sl := allowed - float64(sum); sl < tightest {
				tightest = sl
			}
			if float64(sum) > allowed {
				key := "tbf:rate-exceeded"
				if rmax != c.Rate || bmax != c.Burst || its[m1].r != c.Rate {
					key = "tbf:rate-exceeded-after-set"
				}
				return key, fmt.Sprintf("iterations %d..%d forwarded %d bytes in %.3f ms; burst %d + rate %d bit/s allows %.0f (excess %.0f)", m1+1, m2, sum, dt*1000, bmax, rmax, allowed, float64(sum)-allowed)
			}
		}
	}
	// second family of windows: from just before the hand-in of iteration m1 (a conforming bucket holds at most the
	// burst at any instant) to the last forward of iteration m2, INCLUDING what iteration m1 itself forwards
	for m1 := 0; m1 < nReal; m1++ {
		sum := 0
		rmax, bmax := its[m1].r, its[m1].b
		if m1 > 0 && its[m1-1].b > bmax {
			bmax = its[m1-1].b // a burst lowered since the previous arrival is clamped only at this arrival
		}
		for m2 := m1; m2 < nReal; m2++ {
			sum += its[m2].bytes
			if its[m2].r > rmax {
				rmax = its[m2].r
			}
			if its[m2].b > bmax {
				bmax = its[m2].b
			}
			if its[m2].nfwd == 0 {
				continue
			}
			dt := its[m2].l.Sub(its[m1].a).Seconds()
			allowed := float64(bmax) + float64(rmax)/8*dt + eps
			r.Count("windows_checked", 1)
			if sl := allowed - float64(sum); sl < tightest {
				tightest = sl
			}
			if float64(sum) > allowed {
				return "tbf:rate-exceeded-closed-window", fmt.Sprintf("iterations %d..%d (their own forwards included) forwarded %d bytes in %.3f ms; burst %d + rate %d bit/s allows %.0f (excess %.0f)", m1, m2, sum, dt*1000, bmax, rmax, allowed, float64(sum)-allowed)
			}
		}
	}
	if tightest < 1e17 {
		r.Min("min_window_slack_bytes", int64(tightest))
	}
	r.Count("single_sender_runs", 1)
	r.Count("datagrams", int64(nReal))
	r.Count("forwarded", int64(len(out)))
	r.DistinctKey(fmt.Sprintf("rate=%d burst=%d queue=%d n=%d", c.Rate, c.Burst, c.Queue, nReal/8))
	closed = true
	f.Close()
	return "", ""
}

func runTBF(tier string, seed int64, shard, nshard int, r *res.Result, replay *tcase) {
	r.Rule = "arrival plans (idle gaps 0/2/50/96/99/101/150/250 ms around the filter's refill granularity, bursts far above the rate, sizes 0..burst+1, run-time Set of rate/burst between arrivals) against a TokenBucketFilter with a recording sink; single-sender runs make filter iterations observable (hand-in stamp a_m, first sink stamp u_m, filter goroutine parked between arrivals) and check every iteration window: bytes <= maxburst + rate*(u_m2-a_m1); all runs: forwarded = in-order duplicate-free unmodified subsequence, drops only with occupancy+len >= queue size; distinct = (rate,burst,queue,length class) cells"
	r.Assumptions = []string{"window bound is sound for any scheduling: stamps bracket the filter's clock reads from the outside", "1 byte tolerance for float rounding", "eventual forwarding is not part of C15; a final flush (huge rate/burst, >100ms pause, two empty chunks) empties the queue so that never-forwarded = dropped"}
	if replay != nil {
		r.Eval(1)
		for k := 0; k < 5; k++ {
			if key, desc := runTBFCase(*replay, r); key != "" {
				r.Violate(key, desc, replay)
				return
			}
		}
		return
	}
	n := 14
	if tier == "thorough" {
		n = 100
	}
	rng := rand.New(rand.NewSource(seed*1237 + int64(shard)*17 + 1))
	seen := map[string]int{}
	for i := 0; i < n; i++ {
		c := genTBFCase(rng, i%5 == 4)
		c.Sibling = i%3 == 1
		r.Eval(1)
		key, desc := runTBFCase(c, r)
		if key == "" && desc != "" {
			r.Inconc(desc)
			continue
		}
		if key != "" {
			seen[key]++
			if seen[key] <= 2 {
				r.Violate(key, desc, c)
			}
			continue
		}
		if i == 0 && shard == 0 {
			s := c
			if len(s.Steps) > 12 {
				s.Steps = s.Steps[:12]
			}
			r.Sample(s)
		}
	}
}

func min(a, b int) int {
	if a < b {
		return a
	}
	return b
}

func max(a, b int) int {
	if a > b {
		return a
	}
	return b
}
