package main

import (
	"fmt"
	"math"
	"math/rand"
	"strings"
	"sync"

	"github.com/pion/transport/v3/vnet"
	"verifharness/internal/res"
	"verifharness/internal/vn"
)

// C16: loss filter. Oracle: chance<=0 forwards all, >=100 none, else dropped count within 6 sigma of n*p;
// forwarded chunks are an in-order, duplicate-free, unmodified subsequence of the injected ones.
func runLoss(tier string, seed int64, shard, nshard int, r *res.Result) {
	r.Rule = "streams of n datagrams (sizes 0..1500, unique ids) injected into a LossFilter in front of a recording sink NIC; chances incl. out-of-range values; oracle: deterministic ends, 6-sigma binomial bound in between for the whole stream and for every k-th-datagram sub-stream (k = 2,3,4,5,8: what one of k interleaved flows sees), forwarded = in-order duplicate-free unmodified subsequence (identified by the chunk tag, which a copy keeps; same addresses, same payload hash, same length); the same for 12 pairs of loss filters in series and for six filters used at the same time from six goroutines (incl. out-of-range chances); distinct = (chance, stream) pairs"
	r.Assumptions = []string{"math/rand global source cannot be seeded from outside: verdict for 0<chance<100 is statistical (false-alarm probability about 2e-9 per stream or sub-stream, 23 bounds per chance value)"}
	// every chance value 0..100 plus out-of-range ones: a bias may exist for particular values only
	// out-of-range values at the edges of what an int holds as well: "100 or more" has no upper end, and a negative chance
	// is below every draw
	chances := []int{-5, 101, 250, 1<<31 - 1, 1 << 31, 1<<31 + 60, 1 << 32, 1<<32 + 50, 1 << 40, math.MaxInt64, math.MinInt64, -(1 << 31), -(1 << 32) + 50, 65536 + 30, 256 + 40}
	for c := 0; c <= 100; c++ {
		chances = append(chances, c)
	}
	n := 300000
	streams := 1
	if tier == "thorough" {
		n = 3000000
	}
	rng := rand.New(rand.NewSource(seed*31 + int64(shard)))
	idx := 0
	for _, ch := range chances {
		for s := 0; s < streams; s++ {
			idx++
			if idx%nshard != shard {
				continue
			}
			var got []vn.Seen
			sink := &vnet.VerifNIC{OnChunk: func(c vnet.Chunk) { got = append(got, vn.Snap(c)) }}
			f, err := vnet.NewLossFilter(sink, ch)
			if err != nil {
				r.Violate("loss:ctor", fmt.Sprintf("NewLossFilter(%d): %v", ch, err), nil)
				continue
			}
			sent := make([]vn.Seen, 0, n)
			for i := 0; i < n; i++ {
				size := []int{0, 8, 20}[rng.Intn(3)]
				if i%64 == 0 {
					size = []int{1, 100, 1200, 1500}[rng.Intn(4)]
				}
				c := vnet.VerifNewChunkUDP(vn.UDP("10.0.0.1", 1000+i%50), vn.UDP("10.0.0.2", 2000+i%7), vn.Payload(uint64(i+1), size))
				sent = append(sent, vn.Snap(c))
				vnet.VerifInject(f, c)
			}
			r.Eval(1)
			r.Count("datagrams", int64(n))
			r.Count("forwarded", int64(len(got)))
			r.DistinctKey(fmt.Sprintf("chance=%d stream=%d", ch, s))
			// subsequence check
			j := 0
			bad := ""
			fwd := make([]bool, n)
			for _, g := range got {
				for j < len(sent) && sent[j].Tag != g.Tag {
					j++
				}
				if j == len(sent) {
					bad = fmt.Sprintf("forwarded chunk tag=%s is not a later injected chunk (reordered, duplicated or invented)", g.Tag)
					break
				}
				if g.Hash != sent[j].Hash || g.Src != sent[j].Src || g.Dst != sent[j].Dst || g.Len != sent[j].Len {
					bad = fmt.Sprintf("forwarded chunk tag=%s was modified", g.Tag)
					break
				}
				fwd[j] = true
				j++
			}
			if bad != "" {
				r.Violate("loss:not-subsequence", fmt.Sprintf("chance=%d: %s", ch, bad), map[string]interface{}{"chance": ch, "n": n})
				continue
			}
			dropped := n - len(got)
			p := float64(ch) / 100
			switch {
			case ch <= 0:
				if dropped != 0 {
					r.Violate("loss:dropped-at-0", fmt.Sprintf("chance=%d dropped %d of %d", ch, dropped, n), map[string]interface{}{"chance": ch, "n": n})
				}
			case ch >= 100:
				if len(got) != 0 {
					r.Violate("loss:forwarded-at-100", fmt.Sprintf("chance=%d forwarded %d of %d", ch, len(got), n), map[string]interface{}{"chance": ch, "n": n})
				}
			default:
				tol := 6*math.Sqrt(float64(n)*p*(1-p)) + 1
				dev := math.Abs(float64(dropped) - float64(n)*p)
				r.Max("max_sigma_x100", int64(100*dev/math.Sqrt(float64(n)*p*(1-p))))
				if dev > tol {
					r.Violate("loss:rate", fmt.Sprintf("chance=%d dropped %d of %d (expected %.0f +- %.0f)", ch, dropped, n, float64(n)*p, tol), map[string]interface{}{"chance": ch, "n": n})
				}
				r.Count("statistical_streams", 1)
				// every k-th datagram (what one of k interleaved flows sees) is a stream too: the same bound holds for each
				// residue class of the position, for k = 2, 3, 4, 5, 8 (22 classes; 6 sigma each)
			classes:
				for _, k := range []int{2, 3, 4, 5, 8} {
					cnt := make([]int, k)
					drp := make([]int, k)
					for i := 0; i < n; i++ {
						cnt[i%k]++
						if !fwd[i] {
							drp[i%k]++
						}
					}
					for c := 0; c < k; c++ {
						sd := math.Sqrt(float64(cnt[c]) * p * (1 - p))
						dv := math.Abs(float64(drp[c]) - float64(cnt[c])*p)
						r.Max("max_sigma_x100_substreams", int64(100*dv/sd))
						r.Count("substreams_checked", 1)
						if dv > 6*sd+1 {
							r.Violate("loss:rate-substream", fmt.Sprintf("chance=%d: of the datagrams at positions = %d mod %d, %d of %d were dropped (expected %.0f +- %.0f): drops depend on the position in the stream", ch, c, k, drp[c], cnt[c], float64(cnt[c])*p, 6*sd+1), map[string]interface{}{"chance": ch, "n": n})
							break classes
						}
					}
				}
			}
			if idx <= 3 {
				r.Sample(map[string]interface{}{"chance": ch, "n": n, "dropped": dropped})
			}
		}
	}
	// two loss filters in series (the outer one's NIC is the inner filter): each drops on its own, so the pair forwards
	// nothing when either chance is 100 or more and otherwise loses 1-(1-p1)(1-p2), a negative chance counting as 0
	pairs := [][2]int{{200, 200}, {150, 150}, {110, 110}, {-100, 50}, {50, -100}, {30, 40}, {0, 100}, {100, 0}, {0, 0}, {10, 10}, {99, 99}, {1, 0}}
	ns := 100000
	for pi, pr := range pairs {
		idx++
		if idx%nshard != shard {
			continue
		}
		var got []vn.Seen
		sink := &vnet.VerifNIC{OnChunk: func(c vnet.Chunk) { got = append(got, vn.Snap(c)) }}
		inner, err := vnet.NewLossFilter(sink, pr[1])
		if err != nil {
			r.Violate("loss:ctor", fmt.Sprintf("NewLossFilter(%d): %v", pr[1], err), nil)
			continue
		}
		outer, err := vnet.NewLossFilter(inner, pr[0])
		if err != nil {
			r.Violate("loss:ctor", fmt.Sprintf("NewLossFilter(%d) over a loss filter: %v", pr[0], err), nil)
			continue
		}
		sent := make([]vn.Seen, 0, ns)
		for i := 0; i < ns; i++ {
			c := vnet.VerifNewChunkUDP(vn.UDP("10.0.0.1", 1000+i%50), vn.UDP("10.0.0.2", 2000+i%7), vn.Payload(uint64(i+1), []int{0, 8, 20}[i%3]))
			sent = append(sent, vn.Snap(c))
			vnet.VerifInject(outer, c)
		}
		r.Eval(1)
		r.Count("stacked_pairs", 1)
		r.DistinctKey(fmt.Sprintf("stacked %d over %d", pr[0], pr[1]))
		w := map[string]interface{}{"outer": pr[0], "inner": pr[1], "n": ns, "pair": pi}
		j := 0
		bad := ""
		for _, g := range got {
			for j < len(sent) && sent[j].Tag != g.Tag {
				j++
			}
			if j == len(sent) {
				bad = "a forwarded chunk is not a later injected chunk (reordered, duplicated or invented)"
				break
			}
			if g.Hash != sent[j].Hash || g.Src != sent[j].Src || g.Dst != sent[j].Dst || g.Len != sent[j].Len {
				bad = "a forwarded chunk was modified"
				break
			}
			j++
		}
		if bad != "" {
			r.Violate("loss:stacked:not-subsequence", fmt.Sprintf("chance %d over %d: %s", pr[0], pr[1], bad), w)
			continue
		}
		cl := func(c int) float64 {
			if c < 0 {
				return 0
			}
			return float64(c) / 100
		}
		dropped := ns - len(got)
		switch {
		case pr[0] >= 100 || pr[1] >= 100:
			if len(got) != 0 {
				r.Violate("loss:stacked:forwarded-at-100", fmt.Sprintf("chance %d over %d forwarded %d of %d, one of the two filters must drop everything", pr[0], pr[1], len(got), ns), w)
			}
		default:
			p := 1 - (1-cl(pr[0]))*(1-cl(pr[1]))
			if p == 0 {
				if dropped != 0 {
					r.Violate("loss:stacked:dropped-at-0", fmt.Sprintf("chance %d over %d dropped %d of %d", pr[0], pr[1], dropped, ns), w)
				}
				break
			}
			tol := 6*math.Sqrt(float64(ns)*p*(1-p)) + 1
			if dev := math.Abs(float64(dropped) - float64(ns)*p); dev > tol {
				r.Violate("loss:stacked:rate", fmt.Sprintf("chance %d over %d dropped %d of %d (expected %.0f +- %.0f)", pr[0], pr[1], dropped, ns, float64(ns)*p, tol), w)
			}
		}
	}

	// several loss filters used at the same time from different goroutines (each its own stream and sink), as when several
	// links of a topology are lossy: every stream obeys its own filter's chance
	{
		chs := []int{50, 50, 20, 80, 0, 100, 30, 70}
		nc := 500000
		type cres struct {
			fwd, n int
			bad    string
		}
		outc := make([]cres, len(chs))
		var cwg sync.WaitGroup
		for fi, ch := range chs {
			cwg.Add(1)
			go func(fi, ch int) {
				defer cwg.Done()
				defer func() {
					if p := recover(); p != nil {
						outc[fi].bad = fmt.Sprintf("panic: %v", p)
					}
				}()
				var last uint64
				fwd := 0
				bad := ""
				sink := &vnet.VerifNIC{OnChunk: func(c vnet.Chunk) {
					id := vn.PayloadID(c.UserData())
					if id <= last {
						bad = fmt.Sprintf("datagram %d forwarded after %d (reordered or duplicated)", id, last)
					}
					last = id
					fwd++
				}}
				f, err := vnet.NewLossFilter(sink, ch)
				if err != nil {
					outc[fi].bad = err.Error()
					return
				}
				for i := 0; i < nc; i++ {
					vnet.VerifInject(f, vnet.VerifNewChunkUDP(vn.UDP("10.0.0.1", 1000+fi), vn.UDP("10.0.0.2", 2000), vn.Payload(uint64(i+1), 8)))
				}
				outc[fi] = cres{fwd, nc, bad}
			}(fi, ch)
		}
		cwg.Wait()
		r.Eval(1)
		r.Count("concurrent_filter_streams", int64(len(chs)))
		for fi, ch := range chs {
			o := outc[fi]
			w := map[string]interface{}{"phase": "concurrent filters", "chance": ch, "n": nc}
			p := float64(ch) / 100
			dropped := o.n - o.fwd
			switch {
			case strings.HasPrefix(o.bad, "panic"):
				r.Violate("loss:concurrent:panic", fmt.Sprintf("filter %d (chance %d) next to %d others: %s", fi, ch, len(chs)-1, o.bad), w)
			case o.bad != "":
				r.Violate("loss:concurrent:not-subsequence", fmt.Sprintf("filter %d (chance %d) next to %d others: %s", fi, ch, len(chs)-1, o.bad), w)
			case ch <= 0 && dropped != 0:
				r.Violate("loss:concurrent:dropped-at-0", fmt.Sprintf("chance %d dropped %d of %d while other filters were in use", ch, dropped, o.n), w)
			case ch >= 100 && o.fwd != 0:
				r.Violate("loss:concurrent:forwarded-at-100", fmt.Sprintf("chance %d forwarded %d of %d while other filters were in use", ch, o.fwd, o.n), w)
			case ch > 0 && ch < 100:
				if tol := 6*math.Sqrt(float64(o.n)*p*(1-p)) + 1; math.Abs(float64(dropped)-float64(o.n)*p) > tol {
					r.Violate("loss:concurrent:rate", fmt.Sprintf("chance %d dropped %d of %d (expected %.0f +- %.0f) while %d other filters were in use from other goroutines", ch, dropped, o.n, float64(o.n)*p, tol, len(chs)-1), w)
				}
			}
		}
	}

	// one loss filter entered by several goroutines at the same time (a router's forwarding loop and a sender can both
	// reach a NIC): short rounds in which every sender hands in two datagrams; when all senders have returned, chance 0
	// must have forwarded every datagram of the round (nothing may be left behind inside the filter until a later
	// arrival), chance 100 none; every forwarded datagram was handed in, at most once, in its sender's order
	for _, ch := range []int{0, 0, 100, 40} {
		var mu sync.Mutex
		var got []uint64
		sink := &vnet.VerifNIC{OnChunk: func(c vnet.Chunk) {
			mu.Lock()
			got = append(got, vn.PayloadID(c.UserData()))
			mu.Unlock()
		}}
		f, err := vnet.NewLossFilter(sink, ch)
		if err != nil {
			r.Violate("loss:ctor", err.Error(), nil)
			continue
		}
		const senders, per = 4, 2
		rounds := 15000
		sent := 0
		bad := ""
		start := make([]chan int, senders)
		done := make(chan struct{}, senders)
		for sidx := range start {
			start[sidx] = make(chan int)
			go func(sidx int) {
				for round := range start[sidx] {
					for k := 0; k < per; k++ {
						id := uint64(sidx)<<40 | uint64(round*per+k+1)
						vnet.VerifInject(f, vnet.VerifNewChunkUDP(vn.UDP("10.0.0.1", 1000+sidx), vn.UDP("10.0.0.2", 2000), vn.Payload(id, 8)))
					}
					done <- struct{}{}
				}
			}(sidx)
		}
		for round := 0; round < rounds && bad == ""; round++ {
			for sidx := range start {
				start[sidx] <- round
			}
			for range start {
				<-done
			}
			sent += senders * per
			mu.Lock()
			n := len(got)
			mu.Unlock()
			switch {
			case ch <= 0 && n != sent:
				bad = fmt.Sprintf("chance %d, %d goroutines entering one filter: after round %d every sender has returned, %d datagrams were handed in and %d forwarded", ch, senders, round, sent, n)
			case ch >= 100 && n != 0:
				bad = fmt.Sprintf("chance %d forwarded %d datagrams", ch, n)
			}
		}
		for sidx := range start {
			close(start[sidx])
		}
		r.Eval(1)
		r.Count("shared_filter_rounds", int64(rounds))
		mu.Lock()
		last := map[uint64]uint64{}
		for _, id := range got {
			sidx, seq := id>>40, id&(1<<40-1)
			if seq <= last[sidx] && bad == "" {
				bad = fmt.Sprintf("chance %d: sender %d's datagram %d forwarded after %d (reordered or duplicated)", ch, sidx, seq, last[sidx])
			}
			last[sidx] = seq
		}
		if ch > 0 && ch < 100 && bad == "" {
			p := float64(ch) / 100
			dropped := sent - len(got)
			if tol := 6*math.Sqrt(float64(sent)*p*(1-p)) + 1; math.Abs(float64(dropped)-float64(sent)*p) > tol {
				bad = fmt.Sprintf("chance %d dropped %d of %d (expected %.0f +- %.0f) with %d goroutines entering the filter", ch, dropped, sent, float64(sent)*p, tol, senders)
			}
		}
		mu.Unlock()
		if bad != "" {
			r.Violate("loss:shared", bad, map[string]interface{}{"phase": "one filter, several goroutines", "chance": ch})
		}
	}
}
