// Command vfilter: in-package monitors for the vnet chunk filters (C14 delay, C15 token bucket, C16 loss).
package main

import (
	"encoding/json"
	"flag"
	"fmt"
	"os"

	"verifharness/internal/res"
)

func main() {
	prop := flag.String("prop", "C16", "")
	tier := flag.String("tier", "quick", "")
	seed := flag.Int64("seed", 1, "")
	shard := flag.Int("shard", 0, "")
	nshard := flag.Int("nshard", 1, "")
	out := flag.String("out", "", "")
	replay := flag.String("replay", "", "")
	flag.Parse()
	r := res.New(*prop)
	var raw json.RawMessage
	if *replay != "" {
		b, err := os.ReadFile(*replay)
		if err != nil {
			fmt.Fprintln(os.Stderr, err)
			os.Exit(2)
		}
		var w struct {
			Witness json.RawMessage `json:"witness"`
		}
		if err := json.Unmarshal(b, &w); err != nil {
			fmt.Fprintln(os.Stderr, err)
			os.Exit(2)
		}
		raw = w.Witness
	}
	switch *prop {
	case "C16":
		runLoss(*tier, *seed, *shard, *nshard, r)
	case "C15":
		var rc *tcase
		if raw != nil {
			rc = &tcase{}
			if err := json.Unmarshal(raw, rc); err != nil {
				fmt.Fprintln(os.Stderr, err)
				os.Exit(2)
			}
		}
		runTBF(*tier, *seed, *shard, *nshard, r, rc)
	case "C14":
		var rc *dcase
		if raw != nil {
			rc = &dcase{}
			if err := json.Unmarshal(raw, rc); err != nil {
				fmt.Fprintln(os.Stderr, err)
				os.Exit(2)
			}
		}
		runDelay(*tier, *seed, *shard, *nshard, r, rc)
	}
	r.Write(*out)
}
