// Command ctxio: monitor for context-aware I/O (C17): netctx.Conn and connctx over net.Pipe (stream),
// netctx.PacketConn over a loopback UDP pair and over a vnet socket pair (packet). Free-running (flavour A, -race).
package main

import (
	"bytes"
	"context"
	"encoding/binary"
	"errors"
	"flag"
	"fmt"
	"math/rand"
	"net"
	"os"
	"strings"
	"sync"
	"sync/atomic"
	"time"

	"github.com/pion/transport/v3/connctx"
	"github.com/pion/transport/v3/netctx"
	"github.com/pion/transport/v3/vnet"
	"verifharness/internal/gstate"
	"verifharness/internal/res"
	"verifharness/internal/vn"
)

type end interface {
	Read(ctx context.Context, b []byte) (int, error)
	Write(ctx context.Context, b []byte) (int, error)
	Close()
}

type streamEnd struct {
	r interface {
		ReadContext(context.Context, []byte) (int, error)
		WriteContext(context.Context, []byte) (int, error)
		Close() error
	}
}

func (s streamEnd) Read(ctx context.Context, b []byte) (int, error)  { return s.r.ReadContext(ctx, b) }
func (s streamEnd) Write(ctx context.Context, b []byte) (int, error) { return s.r.WriteContext(ctx, b) }
func (s streamEnd) Close()                                           { s.r.Close() }

type packetEnd struct {
	p    netctx.PacketConn
	peer net.Addr
}

func (s packetEnd) Read(ctx context.Context, b []byte) (int, error) {
	n, _, err := s.p.ReadFromContext(ctx, b)
	return n, err
}
func (s packetEnd) Write(ctx context.Context, b []byte) (int, error) {
	return s.p.WriteToContext(ctx, b, s.peer)
}
func (s packetEnd) Close() { s.p.Close() }

type pair struct {
	a, b    end
	packet  bool
	cleanup func()
	frames  []string // functions a blocked operation shows in its stack
}

func newPair(kind string) (*pair, error) {
	switch kind {
	case "netctx-pipe":
		x, y := net.Pipe()
		return &pair{a: streamEnd{netctx.NewConn(x)}, b: streamEnd{netctx.NewConn(y)}, frames: []string{"netctx.(*conn).ReadContext", "netctx.(*conn).WriteContext"}}, nil
	case "connctx-pipe":
		x, y := net.Pipe()
		return &pair{a: streamEnd{connctx.New(x)}, b: streamEnd{connctx.New(y)}, frames: []string{"connctx.(*connCtx).ReadContext", "connctx.(*connCtx).WriteContext"}}, nil
	case "netctx-udp":
		x, err := net.ListenUDP("udp", &net.UDPAddr{IP: net.IPv4(127, 0, 0, 1)})
		if err != nil {
			return nil, err
		}
		y, err := net.ListenUDP("udp", &net.UDPAddr{IP: net.IPv4(127, 0, 0, 1)})
		if err != nil {
			return nil, err
		}
		return &pair{a: packetEnd{netctx.NewPacketConn(x), y.LocalAddr()}, b: packetEnd{netctx.NewPacketConn(y), x.LocalAddr()}, packet: true, frames: []string{"netctx.(*packetConn).ReadFromContext", "netctx.(*packetConn).WriteToContext"}}, nil
	case "netctx-vnet":
		rt, err := vnet.NewRouter(&vnet.RouterConfig{CIDR: "10.8.0.0/24", LoggerFactory: vn.Silent()})
		if err != nil {
			return nil, err
		}
		n1, _ := vnet.NewNet(&vnet.NetConfig{StaticIPs: []string{"10.8.0.1"}})
		n2, _ := vnet.NewNet(&vnet.NetConfig{StaticIPs: []string{"10.8.0.2"}})
		rt.AddNet(n1)
		rt.AddNet(n2)
		if err := rt.Start(); err != nil {
			return nil, err
		}
		x, err := n1.ListenUDP("udp", vn.UDP("10.8.0.1", 4000))
		if err != nil {
			return nil, err
		}
		y, err := n2.ListenUDP("udp", vn.UDP("10.8.0.2", 4000))
		if err != nil {
			return nil, err
		}
		return &pair{a: packetEnd{netctx.NewPacketConn(x), vn.UDP("10.8.0.2", 4000)}, b: packetEnd{netctx.NewPacketConn(y), vn.UDP("10.8.0.1", 4000)}, packet: true,
			cleanup: func() { rt.Stop() }, frames: []string{"netctx.(*packetConn).ReadFromContext", "netctx.(*packetConn).WriteToContext"}}, nil
	}
	return nil, fmt.Errorf("unknown kind %s", kind)
}

type ccase struct {
	Kind string `json:"kind"`
	Ops  int    `json:"ops"`
	Seed int64  `json:"seed"`
}

func isTimeout(err error) bool {
	var ne net.Error
	if errors.As(err, &ne) && ne.Timeout() {
		return true
	}
	return errors.Is(err, os.ErrDeadlineExceeded)
}

// worker state published for the stall supervisor
type wstate struct {
	goid        int64
	cancelledAt int64 // unixnano when the context of the current op was cancelled (0 = live)
	inOp        int32
}

type dirState struct {
	mu        sync.Mutex
	written   []byte   // stream: concatenation of reported-written prefixes
	read      []byte   // stream: concatenation of bytes returned by reads
	wIDs      []uint64 // packet: ids reported written
	unwritten map[uint64]bool
	rIDs      []uint64
	nW, nR    int64
}

func payload(id uint64, n int) []byte {
	if n < 12 {
		n = 12
	}
	b := vn.Payload(id, n)
	binary.BigEndian.PutUint32(b[8:], uint32(n))
	return b
}

func runCase(c *ccase, r *res.Result) (string, string) {
	p, err := newPair(c.Kind)
	if err != nil {
		return "", "inconclusive: " + err.Error()
	}
	var vmu sync.Mutex
	vkey, vdesc := "", ""
	violate := func(k, d string) {
		vmu.Lock()
		if vkey == "" {
			vkey, vdesc = k, d
		}
		vmu.Unlock()
	}
	dirs := [2]*dirState{{unwritten: map[uint64]bool{}}, {unwritten: map[uint64]bool{}}}
	ends := [2]end{p.a, p.b}
	var progress int64
	var stop int32
	states := make([]*wstate, 4)
	var wg, wwg sync.WaitGroup
	// cancellation modes
	// cancellable: a context that is alive now and ends when the returned function is called. Several shapes, because the
	// wrappers may look at more than Done(): no deadline at all, a deadline an hour away on the context itself, on its
	// parent, cancellation arriving through the parent, values attached.
	type ctxKey struct{}
	cancellable := func(rng *rand.Rand) (context.Context, context.CancelFunc) {
		switch rng.Intn(5) {
		case 0:
			r.Count("contexts_with_far_deadline", 1)
			return context.WithTimeout(context.Background(), time.Hour)
		case 1:
			r.Count("contexts_with_far_deadline", 1)
			parent, pc := context.WithDeadline(context.Background(), time.Now().Add(2*time.Hour))
			ctx, cc := context.WithCancel(parent)
			return ctx, func() { cc(); pc() }
		case 2:
			r.Count("contexts_cancelled_through_parent", 1)
			parent, pc := context.WithCancel(context.Background())
			ctx, cc := context.WithTimeout(context.WithValue(parent, ctxKey{}, 1), time.Hour)
			return ctx, func() { pc(); cc() }
		}
		return context.WithCancel(context.Background())
	}
	mkctx := func(rng *rand.Rand, ws *wstate) (context.Context, func(), string) {
		switch m := rng.Intn(10); {
		case m < 4:
			return context.Background(), func() {}, "live"
		case m < 5:
			ctx, cancel := cancellable(rng)
			cancel()
			atomic.StoreInt64(&ws.cancelledAt, time.Now().UnixNano())
			return ctx, func() {}, "before"
		case m < 6:
			d := time.Duration(rng.Intn(300)) * time.Microsecond
			ctx, cancel := context.WithTimeout(context.Background(), d)
			t := time.AfterFunc(d, func() { atomic.StoreInt64(&ws.cancelledAt, time.Now().UnixNano()) })
			return ctx, func() { cancel(); t.Stop() }, "timeout"
		default:
			ctx, cancel := cancellable(rng)
			d := time.Duration(rng.Intn(400)) * time.Microsecond
			if m == 9 {
				d = time.Duration(rng.Intn(20)) * time.Microsecond // around the start of the operation (watcher start window)
			}
			t := time.AfterFunc(d, func() {
				atomic.StoreInt64(&ws.cancelledAt, time.Now().UnixNano())
				cancel()
			})
			return ctx, func() { t.Stop(); cancel() }, "during"
		}
	}
	for d := 0; d < 2; d++ {
		d := d
		ds := dirs[d]
		wws := &wstate{}
		rws := &wstate{}
		states[2*d], states[2*d+1] = wws, rws
		// writer: end d writes towards end 1-d
		wg.Add(1)
		wwg.Add(1)
		go func() {
			defer wg.Done()
			defer wwg.Done()
			wws.goid = gstate.GoID()
			rng := rand.New(rand.NewSource(c.Seed + int64(d)*7 + 1))
			prevCancelled := false
			for i := 0; i < c.Ops && atomic.LoadInt32(&stop) == 0; i++ {
				if p.packet {
					for atomic.LoadInt64(&ds.nW)-atomic.LoadInt64(&ds.nR) > 8 && atomic.LoadInt32(&stop) == 0 {
						time.Sleep(20 * time.Microsecond) // paced: no kernel / queue overflow
					}
				}
				id := uint64(d)<<40 | uint64(i+1)
				size := []int{12, 12, 40, 200, 1200}[rng.Intn(5)]
				data := payload(id, size)
				atomic.StoreInt64(&wws.cancelledAt, 0)
				ctx, done, mode := mkctx(rng, wws)
				if prevCancelled { // probe with a live context right after a cancelled operation
					done()
					ctx, done, mode = context.Background(), func() {}, "probe"
					atomic.StoreInt64(&wws.cancelledAt, 0)
				}
				if mode == "before" && rng.Intn(3) == 0 {
					// an empty write with a context that is already done: nothing can be transferred, so the only possible
					// outcome is zero bytes and the context's error
					n0, err0 := ends[d].Write(ctx, data[:0])
					r.Count("empty_writes_with_done_context", 1)
					if n0 != 0 || err0 == nil || !(errors.Is(err0, context.Canceled) || errors.Is(err0, context.DeadlineExceeded)) {
						violate("ctxio:"+c.Kind+":empty-op-ignores-context", fmt.Sprintf("direction %d: a zero-length write with an already cancelled context returned (%d, %v), want 0 bytes and the context's error", d, n0, err0))
					}
				}
				atomic.StoreInt32(&wws.inOp, 1)
				n, err := ends[d].Write(ctx, data)
				atomic.StoreInt32(&wws.inOp, 0)
				cancelled := ctx.Err() != nil
				done()
				atomic.AddInt64(&progress, 1)
				r.Count("writes_"+mode, 1)
				if err != nil && cancelled {
					r.Count("writes_cancelled", 1)
				}
				if (mode == "live" || mode == "probe") && err != nil && (isTimeout(err) || errors.Is(err, context.DeadlineExceeded) || errors.Is(err, context.Canceled)) {
					violate("ctxio:"+c.Kind+":leftover-deadline-write", fmt.Sprintf("direction %d write %d with a live context failed with %v (previous operation cancelled: %v)", d, i, err, prevCancelled))
				}
				if err != nil && !cancelled && atomic.LoadInt32(&stop) == 0 && mode != "live" && mode != "probe" {
					// an error other than the context's while the context is live: the wrapped connection's own behaviour
					r.Count("writes_other_error", 1)
				}
				ds.mu.Lock()
				if p.packet {
					if n == 0 && err != nil {
						ds.unwritten[id] = true
					} else {
						ds.wIDs = append(ds.wIDs, id)
						atomic.AddInt64(&ds.nW, 1)
					}
				} else {
					if n > 0 {
						ds.written = append(ds.written, data[:n]...)
					}
				}
				ds.mu.Unlock()
				for j := range data {
					data[j] = 0xEE
				}
				prevCancelled = cancelled && err != nil
			}
		}()
		// reader: end 1-d reads
		wg.Add(1)
		go func() {
			defer wg.Done()
			rws.goid = gstate.GoID()
			rng := rand.New(rand.NewSource(c.Seed + int64(d)*7 + 2))
			prevCancelled := false
			buf := make([]byte, 1500)
			for i := 0; atomic.LoadInt32(&stop) == 0; i++ {
				atomic.StoreInt64(&rws.cancelledAt, 0)
				ctx, done, mode := mkctx(rng, rws)
				if prevCancelled {
					done()
					ctx, done, mode = context.Background(), func() {}, "probe"
					atomic.StoreInt64(&rws.cancelledAt, 0)
				}
				bl := len(buf)
				if !p.packet && rng.Intn(3) == 0 {
					bl = 1 + rng.Intn(64)
				}
				atomic.StoreInt32(&rws.inOp, 1)
				n, err := ends[1-d].Read(ctx, buf[:bl])
				atomic.StoreInt32(&rws.inOp, 0)
				cancelled := ctx.Err() != nil
				done()
				atomic.AddInt64(&progress, 1)
				if atomic.LoadInt32(&stop) != 0 && err != nil && n == 0 {
					return
				}
				r.Count("reads_"+mode, 1)
				if err != nil && cancelled {
					r.Count("reads_cancelled", 1)
					if n > 0 {
						r.Count("reads_cancelled_with_data", 1)
					}
				}
				if mode == "during" && err == nil {
					r.Count("reads_raced_cancel_and_data", 1)
				}
				if (mode == "live" || mode == "probe") && err != nil && (isTimeout(err) || errors.Is(err, context.DeadlineExceeded) || errors.Is(err, context.Canceled)) {
					violate("ctxio:"+c.Kind+":leftover-deadline-read", fmt.Sprintf("direction %d read %d with a live context failed with %v (previous operation cancelled: %v)", d, i, err, prevCancelled))
				}
				if n > 0 {
					ds.mu.Lock()
					if p.packet {
						id := binary.BigEndian.Uint64(buf)
						ln := int(binary.BigEndian.Uint32(buf[8:]))
						if n != ln || !bytes.Equal(buf[:n], payload(id, ln)) {
							violate("ctxio:"+c.Kind+":corrupt-datagram", fmt.Sprintf("direction %d: received %d bytes that are not datagram %x", d, n, id))
						}
						ds.rIDs = append(ds.rIDs, id)
						atomic.AddInt64(&ds.nR, 1)
					} else {
						ds.read = append(ds.read, buf[:n]...)
					}
					ds.mu.Unlock()
				}
				prevCancelled = cancelled && err != nil
			}
		}()
	}
	// supervisor: promptness of cancelled operations decided from goroutine states
	writersDone := make(chan struct{})
	go func() { wwg.Wait(); close(writersDone) }()
	last := int64(-1)
	lastChange := time.Now()
	t0 := time.Now()
	drainStart := time.Time{}
loop:
	for {
		select {
		case <-writersDone:
			if drainStart.IsZero() {
				drainStart = time.Now()
			}
		case <-time.After(2 * time.Millisecond):
		}
		vmu.Lock()
		v := vkey
		vmu.Unlock()
		if v != "" {
			break
		}
		if !drainStart.IsZero() {
			// completeness / drain: everything reported written must come out
			complete := true
			for _, ds := range dirs {
				ds.mu.Lock()
				if p.packet {
					if len(ds.rIDs) < len(ds.wIDs) {
						complete = false
					}
				} else if len(ds.read) < len(ds.written) {
					complete = false
				}
				ds.mu.Unlock()
			}
			if complete {
				break loop
			}
		}
		pr := atomic.LoadInt64(&progress)
		if pr != last {
			last = pr
			lastChange = time.Now()
		} else if time.Since(lastChange) > 300*time.Millisecond {
			// no operation completed for a while: who is parked where?
			gs := gstate.Snapshot()
			for wi, ws := range states {
				ca := atomic.LoadInt64(&ws.cancelledAt)
				if ca == 0 || atomic.LoadInt32(&ws.inOp) == 0 || time.Since(time.Unix(0, ca)) < 250*time.Millisecond {
					continue
				}
				for _, g := range gs {
					if g.ID == ws.goid && gstate.Blocked(g.State) {
						for _, f := range p.frames {
							if g.Has(f) {
								violate("ctxio:"+c.Kind+":cancel-not-prompt", fmt.Sprintf("worker %d is still parked in %s %v after its context was cancelled (state %s)", wi, f, time.Since(time.Unix(0, ca)).Round(time.Millisecond), g.State))
							}
						}
					}
				}
			}
			if !drainStart.IsZero() && time.Since(lastChange) > 600*time.Millisecond {
				// writers are done, readers make no progress and something is missing: lost data
				for d, ds := range dirs {
					ds.mu.Lock()
					if p.packet && len(ds.rIDs) < len(ds.wIDs) {
						violate("ctxio:"+c.Kind+":datagram-lost", fmt.Sprintf("direction %d: %d datagrams reported written, %d received, readers idle (a cancelled read that reported zero bytes consumed one?)", d, len(ds.wIDs), len(ds.rIDs)))
					}
					if !p.packet && len(ds.read) < len(ds.written) {
						violate("ctxio:"+c.Kind+":bytes-lost", fmt.Sprintf("direction %d: %d bytes reported written, %d received, readers idle", d, len(ds.written), len(ds.read)))
					}
					ds.mu.Unlock()
				}
				break loop
			}
		}
		if time.Since(t0) > 60*time.Second {
			atomic.StoreInt32(&stop, 1)
			p.a.Close()
			p.b.Close()
			return "", "inconclusive: case did not finish within the watchdog"
		}
	}
	atomic.StoreInt32(&stop, 1)
	p.a.Close()
	p.b.Close()
	if p.cleanup != nil {
		p.cleanup()
	}
	fin := make(chan struct{})
	go func() { wg.Wait(); close(fin) }()
	select {
	case <-fin:
	case <-time.After(5 * time.Second):
	}
	vmu.Lock()
	defer vmu.Unlock()
	if vkey != "" {
		return vkey, vdesc
	}
	for d, ds := range dirs {
		ds.mu.Lock()
		if p.packet {
			// received = in-order duplicate-free subsequence of written; nothing reported unwritten was received
			j := 0
			for _, id := range ds.rIDs {
				if ds.unwritten[id] {
					ds.mu.Unlock()
					return "ctxio:" + c.Kind + ":unwritten-received", fmt.Sprintf("direction %d: datagram %x was reported unwritten (0 bytes + error) but arrived", d, id)
				}
				for j < len(ds.wIDs) && ds.wIDs[j] != id {
					j++
				}
				if j == len(ds.wIDs) {
					ds.mu.Unlock()
					return "ctxio:" + c.Kind + ":order", fmt.Sprintf("direction %d: datagram %x received out of order, twice, or never written", d, id)
				}
				j++
			}
			r.Count("datagrams", int64(len(ds.rIDs)))
		} else {
			if !bytes.Equal(ds.read, ds.written) {
				k := 0
				for k < len(ds.read) && k < len(ds.written) && ds.read[k] == ds.written[k] {
					k++
				}
				ds.mu.Unlock()
				return "ctxio:" + c.Kind + ":stream-mismatch", fmt.Sprintf("direction %d: bytes received (%d) differ from bytes reported written (%d), first difference at offset %d", d, len(ds.read), len(ds.written), k)
			}
			r.Count("stream_bytes", int64(len(ds.read)))
		}
		ds.mu.Unlock()
	}
	return "", ""
}

func main() {
	tier := flag.String("tier", "quick", "")
	seed := flag.Int64("seed", 1, "")
	shard := flag.Int("shard", 0, "")
	nshard := flag.Int("nshard", 1, "")
	out := flag.String("out", "", "")
	replay := flag.String("replay", "", "")
	flag.Parse()
	_, _ = nshard, replay
	r := res.New("C17")
	r.Rule = "both directions of a pair (netctx.Conn / connctx over net.Pipe; netctx.PacketConn over loopback UDP and over vnet sockets) driven concurrently by writer and reader workers; every operation gets a context that is live, cancelled before the call, cancelled 0-400us into the call (incl. the watcher start window), or a timeout context; the operation right after a cancelled one is a live-context probe; oracle: stream bytes received == reported-written prefixes (also partial), datagrams received = in-order duplicate-free intact subsequence of those reported written and complete under pacing, nothing reported unwritten arrives, a live-context operation never fails with a timeout/context error (no leftover deadline), a cancelled operation is not found parked 250ms after cancellation; plus a phase with two same-direction operations in flight on one wrapper, stream and packet flavours (one being cancelled, one with a live context, which must never see a timeout); distinct = (kind, seed) cases"
	r.Assumptions = []string{"loopback UDP and vnet do not lose datagrams while at most 8 are outstanding", "promptness is decided by inspecting the worker's goroutine state 250ms after its cancel instant, only when no operation completed for 300ms"}
	kinds := []string{"netctx-pipe", "connctx-pipe", "netctx-udp", "netctx-vnet"}
	n := 20
	ops := 400
	if *tier == "thorough" {
		n = 60
		ops = 1500
	}
	rng := rand.New(rand.NewSource(*seed*907 + int64(*shard)*59 + 31))
	seen := map[string]int{}
	for i := 0; i < n; i++ {
		for _, k := range kinds {
			c := &ccase{Kind: k, Ops: ops, Seed: rng.Int63()}
			if *out != "" {
				os.WriteFile(strings.TrimSuffix(*out, ".json")+".case", []byte(fmt.Sprintf("%+v", *c)), 0o644)
			}
			r.Eval(1)
			r.Count("cases_"+k, 1)
			key, d := runCase(c, r)
			r.DistinctKey(fmt.Sprintf("%s/%d", k, c.Seed))
			if key == "" && d != "" {
				r.Inconc(k + ": " + d)
				continue
			}
			if key != "" {
				seen[key]++
				if seen[key] <= 2 {
					r.Violate(key, d, c)
				}
			}
			if i == 0 && *shard == 0 && k == kinds[0] {
				r.Sample(c)
			}
		}
	}
	// two operations of the same direction in flight on one wrapper: the earlier one is cancelled while the later one,
	// with a live context, waits behind it (the wrappers serialise same-direction calls); the live one must not be
	// timed out by the deadline the cancellation used
	for _, k := range []string{"netctx-pipe", "connctx-pipe", "netctx-udp", "netctx-vnet"} {
		for _, dir := range []string{"read", "write"} {
			r.Eval(1)
			r.Count("cases_same_direction_"+dir, 1)
			if key, d := runSameDir(k, dir, ops, rng.Int63(), r); key != "" {
				seen[key]++
				if seen[key] <= 2 {
					r.Violate(key, d, map[string]interface{}{"kind": k, "phase": "same-direction", "direction": dir})
				}
			} else if d != "" {
				r.Inconc(k + ": " + d)
			}
		}
	}
	r.Write(*out)
}

// runSameDir: on end A a "cancelled" worker issues operations whose contexts are cancelled 20-300 us into the call, and a
// "live" worker issues the same kind of operation with context.Background(); the peer end feeds / drains slowly so that
// operations block. The live worker's operations must end with data moved (or with the pipe's own error once the case
// closes the pipe), never with a timeout or a context error.
func runSameDir(kind, dir string, iters int, seed int64, r *res.Result) (string, string) {
	p, err := newPair(kind)
	if err != nil {
		return "", "inconclusive: " + err.Error()
	}
	if p.cleanup != nil {
		defer p.cleanup()
	}
	var closing int32
	var vmu sync.Mutex
	vkey, vdesc := "", ""
	var wg, peerWG sync.WaitGroup
	stopPeer := make(chan struct{})
	peerWG.Add(1)
	go func() { // peer: feeds (for reads) or drains (for writes), slowly
		defer peerWG.Done()
		buf := make([]byte, 64)
		for {
			select {
			case <-stopPeer:
				return
			default:
			}
			time.Sleep(150 * time.Microsecond)
			ctx, cancel := context.WithTimeout(context.Background(), 50*time.Millisecond)
			if dir == "read" {
				p.b.Write(ctx, []byte("0123456789"))
			} else {
				p.b.Read(ctx, buf)
			}
			cancel()
		}
	}()
	op := func(ctx context.Context, buf []byte) (int, error) {
		if dir == "read" {
			return p.a.Read(ctx, buf)
		}
		return p.a.Write(ctx, buf)
	}
	cancelledDone := make(chan struct{})
	wg.Add(2)
	go func() { // cancelled worker
		defer wg.Done()
		defer close(cancelledDone)
		rng := rand.New(rand.NewSource(seed))
		buf := make([]byte, 16)
		for i := 0; i < iters; i++ {
			ctx, cancel := context.WithCancel(context.Background())
			t := time.AfterFunc(time.Duration(20+rng.Intn(280))*time.Microsecond, cancel)
			op(ctx, buf)
			t.Stop()
			cancel()
			r.Count("same_direction_cancelled_ops", 1)
		}
	}()
	go func() { // live worker
		defer wg.Done()
		buf := make([]byte, 16)
		for {
			n, err := op(context.Background(), buf)
			r.Count("same_direction_live_ops", 1)
			if err != nil {
				if atomic.LoadInt32(&closing) == 0 && (isTimeout(err) || errors.Is(err, context.Canceled) || errors.Is(err, context.DeadlineExceeded)) {
					vmu.Lock()
					if vkey == "" {
						vkey = "ctxio:" + kind + ":leftover-deadline-" + dir + "-concurrent"
						vdesc = fmt.Sprintf("a %s with context.Background() returned (%d, %v) while another %s on the same wrapper was being cancelled: it ran into the deadline that the cancellation had set", dir, n, err, dir)
					}
					vmu.Unlock()
				}
				if atomic.LoadInt32(&closing) != 0 || !isTimeout(err) {
					return
				}
			}
		}
	}()
	select {
	case <-cancelledDone:
	case <-time.After(60 * time.Second):
		atomic.StoreInt32(&closing, 1)
		p.a.Close()
		p.b.Close()
		close(stopPeer)
		return "", "inconclusive: same-direction phase did not finish within 60 s"
	}
	atomic.StoreInt32(&closing, 1)
	p.a.Close()
	p.b.Close()
	close(stopPeer)
	wg.Wait()
	peerWG.Wait()
	vmu.Lock()
	defer vmu.Unlock()
	return vkey, vdesc
}
