// Command dlsched: schedule exploration (flavour C) of deadline.Deadline (C09): the expiry callback of a timer that the
// runtime has already dispatched and one or two Set calls run as separate tasks of the cooperative scheduler, with
// yield points before every lock/unlock/channel operation of deadline.go. The timer is a fake one (its Stop reports
// whether the harness has "dispatched" it), so the only concurrency is the one the scheduler creates.
package main

import (
	"encoding/json"
	"flag"
	"fmt"
	"math/rand"
	"os"
	"strings"
	"time"

	"github.com/pion/transport/v3/deadline"
	"verifharness/internal/res"
	"verifharness/internal/sched"
)

type fakeTimer struct{ armed bool }

func (f *fakeTimer) Stop() bool {
	was := f.armed
	f.armed = false
	return was
}

func (f *fakeTimer) Reset(time.Duration) bool {
	was := f.armed
	f.armed = true
	return was
}

type scen struct {
	Sets     []string `json:"sets"` // the Set calls of task S, in order: zero | past | future
	Strategy string   `json:"strategy"`
	Seed     int64    `json:"seed"`
	Trace    []string `json:"trace,omitempty"`
	Prefix   []int    `json:"prefix,omitempty"`
}

type result struct {
	key, desc string
	trace     []string
	steps     int
	outcome   sched.Outcome
}

func isClosed(ch <-chan struct{}) bool {
	select {
	case <-ch:
		return true
	default:
		return false
	}
}

var (
	farA = time.Now().Add(1000 * time.Hour)
	farB = time.Now().Add(2000 * time.Hour)
	past = time.Now().Add(-time.Hour)
)

func runOne(sc *scen, st sched.Strategy, hit map[int]bool) (rs result) {
	s := sched.New(st)
	s.Settle = true
	s.MaxSteps = 300
	ft := &fakeTimer{}
	d, cb := deadline.VerifNewWithTimer(ft)
	// unscheduled setup: a deadline is running and its timer has just been dispatched by the runtime
	d.Set(farA)
	ch0 := d.Done()
	ft.armed = false
	deadline.VerifYield = s.Yield
	defer func() { deadline.VerifYield = nil }()
	var panics []string
	guard := func(name string, f func()) func() {
		return func() {
			defer func() {
				if p := recover(); p != nil {
					panics = append(panics, fmt.Sprintf("%s: %v", name, p))
				}
			}()
			f()
		}
	}
	tDone, sDone := false, false
	s.Go("T", guard("expiry callback", func() { cb(); tDone = true }))
	s.Go("S", guard("Set", func() {
		for _, k := range sc.Sets {
			switch k {
			case "zero":
				d.Set(time.Time{})
			case "past":
				d.Set(past)
			default:
				d.Set(farB)
			}
		}
		sDone = true
	}))
	out := s.Run(3 * time.Second)
	rs = result{trace: s.Trace(), steps: s.Steps(), outcome: out}
	for _, p := range s.PointsHit() {
		hit[p] = true
	}
	s.Stop()
	deadline.VerifYield = nil
	if len(panics) > 0 {
		rs.key, rs.desc = "deadline:sched:panic", strings.Join(panics, "; ")
		return rs
	}
	if out != sched.AllDone || !tDone || !sDone {
		if out == sched.Quiescent {
			rs.key, rs.desc = "deadline:sched:stuck", "the expiry callback and Set are both parked: neither can finish"
		}
		return rs
	}
	last := sc.Sets[len(sc.Sets)-1]
	closed := isClosed(d.Done())
	switch last {
	case "future":
		// the latest Set lies 2000 h ahead and its timer has not been dispatched: nothing may have signalled
		if closed {
			rs.key, rs.desc = "deadline:sched:signalled-early", "Done() is closed although the latest Set is a future time whose timer has not expired (the callback of the superseded timer signalled)"
		} else if d.Err() != nil {
			rs.key, rs.desc = "deadline:sched:err-mismatch", fmt.Sprintf("Err()=%v although Done() is open", d.Err())
		}
	case "zero":
		if closed || d.Err() != nil {
			rs.key, rs.desc = "deadline:sched:signalled-after-zero", fmt.Sprintf("after Set(zero): Done closed=%v Err=%v", closed, d.Err())
		}
	case "past":
		if !closed {
			rs.key, rs.desc = "deadline:sched:past-not-signalled", "Set(past) left Done open"
		} else if !isClosed(ch0) {
			rs.key, rs.desc = "deadline:sched:waiter-orphaned", "the deadline is exceeded but the Done channel handed out before is still open"
		}
	}
	if rs.key != "" {
		return rs
	}
	// afterwards the object must still work: when the latest deadline is a future one, dispatch its timer and run the callback
	if last == "future" {
		func() {
			defer func() {
				if p := recover(); p != nil {
					rs.key, rs.desc = "deadline:sched:panic", fmt.Sprintf("the expiry of the latest deadline panicked: %v", p)
				}
			}()
			if !ft.armed {
				rs.key, rs.desc = "deadline:sched:not-armed", "the latest Set is a future time but the timer is not armed"
				return
			}
			ft.armed = false
			chNew := d.Done()
			cb()
			if !isClosed(d.Done()) || !isClosed(chNew) {
				rs.key, rs.desc = "deadline:sched:expiry-lost", "the timer of the latest Set expired and its callback ran, but Done is still open"
			}
		}()
	}
	return rs
}

func strat(sc *scen) sched.Strategy {
	rng := rand.New(rand.NewSource(sc.Seed))
	switch {
	case sc.Strategy == "random":
		return &sched.Random{Rng: rng}
	case strings.HasPrefix(sc.Strategy, "pct"):
		return sched.NewPCT(rng, int(sc.Strategy[3]-'0'), 30)
	case sc.Strategy == "forced":
		return &sched.Forced{Want: sc.Trace}
	}
	return &sched.DFS{Prefix: sc.Prefix, Bound: 3}
}

func main() {
	tier := flag.String("tier", "quick", "")
	seed := flag.Int64("seed", 1, "")
	shard := flag.Int("shard", 0, "")
	nshard := flag.Int("nshard", 1, "")
	out := flag.String("out", "", "")
	replay := flag.String("replay", "", "")
	flag.Parse()
	_ = nshard
	r := res.New("C09")
	r.Rule = "schedule exploration: a running deadline whose timer has been dispatched; the expiry callback and a task doing 1-2 Set calls (zero | past | future) are interleaved by a cooperative scheduler at the yield points before every lock/unlock/channel operation of deadline.go; DFS with preemption bound 3 per Set sequence (frontier exhausted when small), plus PCT and random schedules; oracle on the final state: Done open and Err nil when the latest Set is a future time or zero, Done closed after Set(past) including the channel handed out before, no panic, and the timer of the latest future Set still signals when it expires; distinct = distinct schedules"
	r.Assumptions = []string{"the fake timer's Stop reports 'already dispatched' exactly when the harness dispatched it", "two Set calls of different goroutines are not interleaved with each other (the latest Set would be ambiguous)"}
	hit := map[int]bool{}
	seen := map[string]int{}
	one := func(sc *scen, st sched.Strategy) result {
		rs := runOne(sc, st, hit)
		r.Eval(1)
		r.Count("sched_schedule_steps", int64(rs.steps))
		r.DistinctKey(strings.Join(sc.Sets, ",") + "|" + strings.Join(rs.trace, " "))
		if rs.outcome == sched.TimedOut {
			r.Inconc("schedule hit the step/wall limit")
		}
		if rs.key != "" {
			seen[rs.key]++
			if seen[rs.key] <= 2 {
				w := *sc
				w.Trace = rs.trace
				r.Violate(rs.key, rs.desc+" | Set sequence "+strings.Join(sc.Sets, ",")+" | schedule "+strings.Join(rs.trace, " "), w)
			}
		}
		return rs
	}
	if *replay != "" {
		b, _ := os.ReadFile(*replay)
		var w struct {
			Witness scen `json:"witness"`
		}
		if err := json.Unmarshal(b, &w); err != nil || len(w.Witness.Sets) == 0 {
			fmt.Fprintln(os.Stderr, "replay: not a dlsched witness", err)
			os.Exit(2)
		}
		sc := w.Witness
		for k := 0; k < 20 && r.NViol() == 0; k++ {
			one(&sc, &sched.Forced{Want: sc.Trace})
		}
		for k := 0; k < 300 && r.NViol() == 0; k++ {
			s2 := sc
			s2.Seed = sc.Seed + int64(k)
			s2.Strategy = "pct3"
			one(&s2, strat(&s2))
		}
		r.Write(*out)
		return
	}
	seqs := [][]string{{"future"}, {"zero"}, {"past"}, {"future", "future"}, {"zero", "future"}, {"past", "future"}, {"future", "zero"}, {"future", "past"}, {"zero", "past"}, {"past", "zero"}}
	budget := 400
	n := 300
	if *tier == "thorough" {
		budget, n = 5000, 3000
	}
	for si, sq := range seqs {
		if si%*nshard != *shard {
			continue
		}
		var prefix []int
		for k := 0; k < budget; k++ {
			dd := &sched.DFS{Prefix: prefix, Bound: 3}
			c := scen{Sets: sq, Strategy: "dfs", Prefix: prefix}
			rs := one(&c, dd)
			r.Count("sched_dfs_schedules", 1)
			if rs.key != "" {
				break
			}
			prefix = dd.Next()
			if prefix == nil {
				r.Count("sched_dfs_frontiers_exhausted", 1)
				break
			}
		}
	}
	rng := rand.New(rand.NewSource(*seed*1301 + int64(*shard)*73 + 47))
	for i := 0; i < n; i++ {
		sc := &scen{Sets: seqs[rng.Intn(len(seqs))], Seed: rng.Int63()}
		if rng.Intn(4) == 0 {
			sc.Strategy = "random"
		} else {
			sc.Strategy = fmt.Sprintf("pct%d", 2+rng.Intn(3))
		}
		one(sc, strat(sc))
		if i == 0 && *shard == 0 {
			r.Sample(sc)
		}
	}
	r.Max("sched_yield_points_reached", int64(len(hit)))
	r.Write(*out)
}
