// Command pbuf: monitors for packetio.Buffer.
//
//	-prop C06|C07 -mode seq   reference-model monitor (FIFO of byte slices + limits), every observable compared after every op
//	-prop C06     -mode conc  W writers x R readers, API-boundary history checked with porcupine (queue+closed model)
package main

import (
	"bytes"
	"encoding/json"
	"errors"
	"flag"
	"fmt"
	"io"
	"math/rand"
	"os"
	"runtime"
	"strings"
	"sync"
	"sync/atomic"
	"time"

	"github.com/anishathalye/porcupine"
	"github.com/pion/transport/v3/packetio"
	"verifharness/internal/gstate"
	"verifharness/internal/res"
)

const mib4 = 4 * 1024 * 1024

type op struct {
	K    string `json:"k"`           // w r lc ls close
	N    int    `json:"n"`           // write: length; read: destination length; lc/ls: limit
	Fill uint32 `json:"f,omitempty"` // write: content seed
}

type hist struct {
	Ops []op `json:"ops"`
}

type pkt []byte

type model struct {
	q      []pkt
	size   int
	lc, ls int
	closed bool
}

func fillBytes(n int, seed uint32) []byte {
	b := make([]byte, n)
	x := seed*2654435761 + 12345
	for i := range b {
		x = x*1664525 + 1013904223
		b[i] = byte(x >> 24)
	}
	return b
}

type verdict struct {
	key, desc string
	at        int
}

// exec applies one op to buffer and model and compares; returns a verdict on the first difference.
func exec(prop string, b *packetio.Buffer, m *model, o op, i int, r *res.Result) (v *verdict) {
	defer func() {
		if p := recover(); p != nil {
			v = &verdict{"panic", fmt.Sprintf("op %d (%s %d): the buffer panicked: %v", i, o.K, o.N, p), i}
		}
	}()
	return exec1(prop, b, m, o, i, r)
}

func exec1(prop string, b *packetio.Buffer, m *model, o op, i int, r *res.Result) *verdict {
	switch o.K {
	case "lc":
		b.SetLimitCount(o.N)
		m.lc = o.N
	case "ls":
		b.SetLimitSize(o.N)
		m.ls = o.N
	case "close":
		if err := b.Close(); err != nil {
			return &verdict{"close-error", fmt.Sprintf("op %d: Close returned %v", i, err), i}
		}
		m.closed = true
	case "w":
		data := fillBytes(o.N, o.Fill)
		keep := append([]byte{}, data...)
		_, t0, c0, _ := b.VerifState()
		n, err := b.Write(data)
		for j := range data { // the writer scribbles over its slice right after Write returns
			data[j] ^= 0xA5
		}
		r.Count("writes", 1)
		need := m.size + 2 + o.N
		var must, mustNot bool // must accept / must refuse
		full := false
		switch {
		case o.N >= 0x10000:
			mustNot = true
		case m.closed:
			mustNot = true
		case m.lc > 0 && len(m.q) >= m.lc:
			mustNot, full = true, true
			r.Count("refused_by_count", 1)
		case m.ls > 0 && need > m.ls:
			mustNot, full = true, true
			r.Count("refused_by_size", 1)
		case m.ls <= 0 && need > mib4:
			mustNot, full = true, true
			r.Count("refused_by_cap", 1)
		case m.ls <= 0 && need == mib4:
			r.Count("cap_boundary_unconstrained", 1)
		default:
			must = true
		}
		if prop == "C07" && full {
			room := 0
			if m.lc > 0 && len(m.q) >= m.lc {
				r.DistinctKey(fmt.Sprintf("full count lc=%d", m.lc))
			} else if m.ls > 0 {
				room = need - m.ls
				r.DistinctKey(fmt.Sprintf("full size over=%d ls=%s", min(room, 3), sizeClass(m.ls)))
			} else {
				r.DistinctKey(fmt.Sprintf("full cap over=%d", min(need-mib4, 3)))
			}
		}
		if prop == "C07" && must {
			if m.ls > 0 && m.ls-need <= 2 {
				r.DistinctKey(fmt.Sprintf("fits size room=%d ls=%s", m.ls-need, sizeClass(m.ls)))
			} else if m.ls <= 0 && mib4-need <= 3 {
				r.DistinctKey(fmt.Sprintf("fits cap room=%d", mib4-need))
			} else if m.lc > 0 && m.lc-len(m.q) == 1 {
				r.DistinctKey(fmt.Sprintf("fits count last lc=%d", m.lc))
			}
		}
		accepted := err == nil
		if accepted && n != o.N {
			return &verdict{"write-n", fmt.Sprintf("op %d: Write(len %d) returned n=%d", i, o.N, n), i}
		}
		if mustNot && accepted {
			k := "accepted-over-limit"
			if o.N >= 0x10000 {
				k = "accepted-too-big"
			} else if m.closed {
				k = "accepted-after-close"
			} else if m.ls <= 0 && !(m.lc > 0 && len(m.q) >= m.lc) {
				k = "accepted-over-cap"
			}
			return &verdict{k, fmt.Sprintf("op %d: Write(len %d) accepted; model: count=%d size=%d limitCount=%d limitSize=%d closed=%v", i, o.N, len(m.q), m.size, m.lc, m.ls, m.closed), i}
		}
		if must && !accepted {
			return &verdict{"refused-though-fits", fmt.Sprintf("op %d: Write(len %d) refused with %v; model: count=%d size=%d limitCount=%d limitSize=%d", i, o.N, err, len(m.q), m.size, m.lc, m.ls), i}
		}
		if full && !accepted && !errors.Is(err, packetio.ErrFull) {
			return &verdict{"wrong-error", fmt.Sprintf("op %d: Write refused with %v, want ErrFull", i, err), i}
		}
		if !accepted && n != 0 {
			return &verdict{"write-n", fmt.Sprintf("op %d: refused Write returned n=%d", i, n), i}
		}
		if accepted {
			m.q = append(m.q, keep)
			m.size += 2 + o.N
			_, t1, c1, _ := b.VerifState()
			// coverage cells: where did header / payload land relative to the ring end, did the ring grow
			cell := fmt.Sprintf("cap=%d", c1)
			if c1 != c0 {
				lay := "contig"
				h0, _, _, _ := 0, 0, 0, 0
				_ = h0
				if t0 < 0 {
					lay = "?"
				}
				cell += " grew-from=" + fmt.Sprint(c0) + " " + lay
				r.Count("grow_events", 1)
			} else if c0 > 0 {
				d := c0 - t0
				if d <= 2 {
					cell += fmt.Sprintf(" hdr-at-end-%d", d)
					r.Count("header_at_ring_end", 1)
				} else if t1 < t0 {
					cell += fmt.Sprintf(" payload-wrap end%+d", min(t1, 2))
					r.Count("payload_wrapped", 1)
				}
			}
			r.DistinctKey(cell)
		}
	case "r":
		if len(m.q) == 0 && !m.closed {
			return nil // would block: not part of the sequential monitor (C08)
		}
		guard := 8
		arr := make([]byte, o.N+2*guard)
		for j := range arr {
			arr[j] = 0x5A
		}
		dst := arr[guard : guard+o.N : guard+o.N]
		h0, _, c0, _ := b.VerifState()
		n, err := b.Read(dst)
		r.Count("reads", 1)
		if len(m.q) == 0 {
			if err != io.EOF || n != 0 {
				return &verdict{"no-eof", fmt.Sprintf("op %d: Read on closed empty buffer returned n=%d err=%v", i, n, err), i}
			}
			r.Count("eof_reads", 1)
			return nil
		}
		p := m.q[0]
		m.q = m.q[1:]
		m.size -= 2 + len(p)
		want := len(p)
		var wantErr error
		if o.N < len(p) {
			want = o.N
			wantErr = io.ErrShortBuffer
			r.Count("short_reads", 1)
		}
		if n != want || err != wantErr {
			return &verdict{"read-result", fmt.Sprintf("op %d: Read(dst %d) = (%d,%v), want (%d,%v) for a packet of %d bytes", i, o.N, n, err, want, wantErr, len(p)), i}
		}
		if !bytes.Equal(dst[:n], p[:n]) {
			return &verdict{"read-bytes", fmt.Sprintf("op %d: Read(dst %d) returned wrong bytes for packet of %d bytes (first diff at %d)", i, o.N, len(p), firstDiff(dst[:n], p[:n])), i}
		}
		for j, x := range arr {
			if (j < guard || j >= guard+n) && x != 0x5A {
				return &verdict{"read-overrun", fmt.Sprintf("op %d: Read(dst %d) modified byte %d outside [0,%d)", i, o.N, j-guard, n), i}
			}
		}
		if c0 > 0 && h0+2+len(p) >= c0 {
			r.Count("read_across_ring_end", 1)
			r.DistinctKey(fmt.Sprintf("read-wrap cap=%d hdr=%d short=%v", c0, min(c0-h0, 3), wantErr != nil))
		}
	}
	if prop == "C07" || o.K == "w" || o.K == "r" {
		if c := b.Count(); c != len(m.q) {
			return &verdict{"count", fmt.Sprintf("op %d (%s %d): Count()=%d, model %d", i, o.K, o.N, c, len(m.q)), i}
		}
		if s := b.Size(); s != m.size {
			return &verdict{"size", fmt.Sprintf("op %d (%s %d): Size()=%d, model %d", i, o.K, o.N, s, m.size), i}
		}
	}
	return nil
}

func firstDiff(a, b []byte) int {
	for i := range a {
		if a[i] != b[i] {
			return i
		}
	}
	return -1
}

func sizeClass(n int) string {
	for k := 0; k < 12; k++ {
		g := 2048 << k
		if n >= g-1 && n <= g+1 {
			return fmt.Sprintf("2048*2^%d%+d", k, n-g)
		}
	}
	switch {
	case n < 2048:
		return "tiny"
	case n < 128*1024:
		return "mid"
	case n < mib4-1:
		return "big"
	case n <= mib4+1:
		return fmt.Sprintf("4MiB%+d", n-mib4)
	}
	return "above-cap"
}

var sizeLimits = []int{0, 0, 3, 10, 100, 2047, 2048, 2049, 4095, 4096, 4097, 8191, 8192, 8193, 16384, 32767, 65536, 65537, 131071, 131072, 131073, 163840, mib4 - 1, mib4, mib4 + 1, 6 * 1024 * 1024, -1}
var countLimits = []int{0, 0, 1, 2, 3, 100, -1}

// generate + execute one steered history (the generator looks at the ring layout to aim at the ring end).
// bystander: a second Buffer used in the same history ("x:" operations), with its own model. Buffers are independent
// objects: whatever happens to one (growth, Close with packets left, being dropped and replaced by a fresh instance)
// must leave the contents of the other untouched.
type bystander struct {
	b *packetio.Buffer
	m *model
	// ghosts: earlier instances that were replaced while packets were left in them (typically closed ones); "x:g" reads
	// from the oldest one: its packets must still be what was written, whatever the instances created later have done
	ghosts []*bystander
}

func (x *bystander) exec(prop string, o op, i int, r *res.Result) *verdict {
	k := strings.TrimPrefix(o.K, "x:")
	if k == "g" {
		for len(x.ghosts) > 0 && len(x.ghosts[0].m.q) == 0 {
			x.ghosts = x.ghosts[1:]
		}
		if len(x.ghosts) == 0 {
			return nil
		}
		g := x.ghosts[0]
		r.Count("reads_from_replaced_instances", 1)
		if v := exec(prop, g.b, g.m, op{K: "r", N: o.N}, i, r); v != nil {
			v.key = "bystander:ghost:" + v.key
			v.desc = "buffer instance that was replaced by a fresh one while packets were left in it: " + v.desc
			return v
		}
		return nil
	}
	if k == "new" || x.b == nil {
		if x.b != nil && len(x.m.q) > 0 {
			x.ghosts = append(x.ghosts, &bystander{b: x.b, m: x.m})
		}
		x.b, x.m = packetio.NewBuffer(), &model{}
		r.Count("bystander_instances", 1)
		if k == "new" {
			return nil
		}
	}
	o.K = k
	r.Count("bystander_ops", 1)
	if v := exec(prop, x.b, x.m, o, i, r); v != nil {
		v.key = "bystander:" + v.key
		v.desc = "second buffer of the same history: " + v.desc
		return v
	}
	return nil
}

func runHistory(prop string, rng *rand.Rand, r *res.Result, big bool) (*hist, *verdict) {
	b := packetio.NewBuffer()
	m := &model{}
	h := &hist{}
	by := &bystander{}
	two := !big && rng.Intn(3) == 0
	xop := func() op {
		switch k := rng.Intn(20); {
		case k < 10:
			return op{K: "x:w", N: []int{0, 1, 7, 40, 300, 1200, 2040, 3000}[rng.Intn(8)], Fill: rng.Uint32()}
		case k < 14:
			return op{K: "x:r", N: []int{0, 16, 65535, 65535}[rng.Intn(4)]}
		case k < 16:
			return op{K: "x:g", N: 65535}
		case k < 18:
			return op{K: "x:close"}
		}
		return op{K: "x:new"}
	}
	var forced []op
	nops := 100 + rng.Intn(400)
	// profile: which packet sizes dominate
	prof := rng.Intn(5)
	if big {
		prof = 5
		nops = 400 + rng.Intn(300)
	}
	pendingLimit := -1
	for i := 0; i < nops; i++ {
		var o op
		head, tail, capv, cnt := b.VerifState()
		_ = head
		if two && (len(forced) > 0 || rng.Intn(6) == 0) {
			if len(forced) > 0 {
				o, forced = forced[0], forced[1:]
			} else {
				o = xop()
			}
			h.Ops = append(h.Ops, o)
			if v := by.exec(prop, o, i, r); v != nil {
				return h, v
			}
			continue
		}
		k := rng.Intn(100)
		if big && k >= 9 && k < 100 {
			// write-heavy so that occupancy climbs to the 4 MiB cap (and beyond under a larger limit)
			if k < 88 {
				k = 20
			} else {
				k = 90
			}
		}
		switch {
		case big && m.ls > mib4 && m.size > mib4-70000 && rng.Intn(6) == 0:
			// unset a larger limit while the occupancy is around / above the 4 MiB cap
			o = op{K: "ls", N: 0}
		case k < 3:
			o = op{K: "lc", N: countLimits[rng.Intn(len(countLimits))]}
		case k < 8:
			ls := sizeLimits[rng.Intn(len(sizeLimits))]
			if rng.Intn(4) == 0 && m.size > 4 {
				ls = m.size + rng.Intn(40) - 10 // around the current occupancy (also below it)
			}
			if big && rng.Intn(3) > 0 {
				ls = []int{0, 6 * 1024 * 1024, 6 * 1024 * 1024, mib4 + 1, mib4, mib4 - 1, 0}[rng.Intn(7)]
			}
			o = op{K: "ls", N: ls}
			pendingLimit = ls
		case k < 9 && i > nops/2:
			o = op{K: "close"}
		case k < 55 || cnt == 0:
			n := 0
			switch {
			case prof == 5:
				n = []int{65535, 65535, 65534, 60000, 1, 0, 1000}[rng.Intn(7)]
			case rng.Intn(10) == 0:
				n = []int{0, 1, 2, 65535, 65536, 65537, 70000, 2043, 2044, 2045, 2046}[rng.Intn(11)]
			case prof == 0:
				n = rng.Intn(40)
			case prof == 1:
				n = rng.Intn(700)
			case prof == 2:
				n = rng.Intn(5000)
			case prof == 3:
				n = rng.Intn(65536)
			default:
				n = rng.Intn(300) + 900
			}
			aim := rng.Intn(10)
			if capv > 0 && aim < 3 {
				// aim the END of this packet at ring end + {-2..2}
				want := capv - tail - 2 + rng.Intn(5) - 2
				if want >= 0 && want < 0x10000 {
					n = want
				}
			} else if aim < 5 {
				// approach a limit from below: remaining room passes through {-1,0,+1}
				lim := m.ls
				if lim <= 0 {
					lim = mib4
				}
				room := lim - m.size - 2 + rng.Intn(3) - 1
				if room >= 0 && room < 0x10000 {
					n = room
				}
			}
			o = op{K: "w", N: n, Fill: rng.Uint32()}
		default:
			n := 0
			nl := 0
			if len(m.q) > 0 {
				nl = len(m.q[0])
			}
			switch rng.Intn(8) {
			case 0:
				n = 0
			case 1:
				n = 1
			case 2:
				n = max(nl-1, 0)
			case 3, 4:
				n = nl
			case 5:
				n = nl + 1
			case 6:
				n = 65535
			default:
				n = rng.Intn(2000)
			}
			o = op{K: "r", N: n}
		}
		_ = pendingLimit
		h.Ops = append(h.Ops, o)
		r.Count("ops", 1)
		if v := exec(prop, b, m, o, i, r); v != nil {
			return h, v
		}
		if two && (o.K == "close" || o.K == "r" && rng.Intn(8) == 0) {
			// right after a Close (packets may be left) or a read: a fresh instance elsewhere starts writing
			forced = []op{{K: "x:new"}, {K: "x:w", N: 40, Fill: rng.Uint32()}, {K: "x:w", N: 1 + rng.Intn(900), Fill: rng.Uint32()}}
		}
		r.Max("max_occupancy_bytes", int64(m.size))
		r.Max("max_ring_capacity", int64(capv))
	}
	// drain: everything written must come out
	for len(m.q) > 0 {
		o := op{K: "r", N: 65535}
		h.Ops = append(h.Ops, o)
		if v := exec(prop, b, m, o, len(h.Ops)-1, r); v != nil {
			return h, v
		}
	}
	for by.b != nil && len(by.m.q) > 0 {
		o := op{K: "x:r", N: 65535}
		h.Ops = append(h.Ops, o)
		if v := by.exec(prop, o, len(h.Ops)-1, r); v != nil {
			return h, v
		}
	}
	for guard := 0; guard < 100000; guard++ {
		for len(by.ghosts) > 0 && len(by.ghosts[0].m.q) == 0 {
			by.ghosts = by.ghosts[1:]
		}
		if len(by.ghosts) == 0 {
			break
		}
		o := op{K: "x:g", N: 65535}
		h.Ops = append(h.Ops, o)
		if v := by.exec(prop, o, len(h.Ops)-1, r); v != nil {
			return h, v
		}
	}
	return h, nil
}

func replayHist(prop string, h *hist, r *res.Result) *verdict {
	b := packetio.NewBuffer()
	m := &model{}
	by := &bystander{}
	for i, o := range h.Ops {
		if strings.HasPrefix(o.K, "x:") {
			if v := by.exec(prop, o, i, r); v != nil {
				return v
			}
			continue
		}
		if v := exec(prop, b, m, o, i, r); v != nil {
			return v
		}
	}
	return nil
}

// ---------- concurrent part: porcupine ----------

type cin struct {
	Write bool
	Close bool
	ID    int
}
type cout struct {
	ID  int // read: packet id, -1 EOF ; write: 0 ok, -2 refused(closed)
	Err string
}

type qstate struct {
	q      string // ids as bytes of a string (comparable)
	closed bool
}

func queueModel() porcupine.Model {
	return porcupine.Model{
		Init: func() interface{} { return qstate{} },
		Step: func(st, in, out interface{}) (bool, interface{}) {
			s := st.(qstate)
			i := in.(cin)
			o := out.(cout)
			switch {
			case i.Close:
				s.closed = true
				return true, s
			case i.Write:
				if s.closed {
					return o.ID == -2, s
				}
				if o.ID != 0 {
					return false, s
				}
				s.q += string(rune(i.ID))
				return true, s
			default:
				if len(s.q) == 0 {
					return s.closed && o.ID == -1, s
				}
				rs := []rune(s.q)
				if int(rs[0]) != o.ID {
					return false, s
				}
				s.q = string(rs[1:])
				return true, s
			}
		},
		DescribeOperation: func(in, out interface{}) string {
			i := in.(cin)
			o := out.(cout)
			switch {
			case i.Close:
				return "Close()"
			case i.Write:
				return fmt.Sprintf("Write(%d)->%d", i.ID, o.ID)
			}
			return fmt.Sprintf("Read()->%d", o.ID)
		},
	}
}

// concSize varies per history so that some histories wrap and grow the 2048-byte ring while readers run.
var concSize = 97

func idPayload(id int) []byte {
	b := fillBytes(3+(id*131)%concSize, uint32(id))
	b[0], b[1], b[2] = byte(id), byte(id>>8), 0xEE
	return b
}

// bulkHistory: several writers push large tagged packets (2-60 KB) into one buffer at the same time, so that the ring
// goes through its growth steps up to and beyond 128 KiB with concurrent writers, while a reader drains slowly or not at
// all; writers scribble over their slices after every Write. Afterwards the buffer is closed and drained. Conservation
// instead of linearizability: every packet whose Write succeeded comes out exactly once, intact, in its writer's order;
// nothing else comes out; Count and Size are exact at the end.
func bulkHistory(rng *rand.Rand, r *res.Result) string {
	b := packetio.NewBuffer()
	nw := 2 + rng.Intn(7)
	per := 10 + rng.Intn(40)
	slowReader := rng.Intn(2) == 0
	if rng.Intn(3) == 0 {
		b.SetLimitSize(8 * 1024 * 1024)
	}
	type rec struct{ w, seq, n int }
	mk := func(w, seq, n int) []byte {
		p := fillBytes(n, uint32(w*100003+seq))
		p[0], p[1], p[2], p[3] = byte(w), byte(seq), byte(seq>>8), 0xB7
		return p
	}
	var mu sync.Mutex
	accepted := map[[2]int]int{} // (writer, seq) -> length of the packets whose Write returned nil
	var got []rec
	var corrupt string
	check := func(p []byte) {
		if len(p) < 4 || p[3] != 0xB7 {
			if corrupt == "" {
				corrupt = fmt.Sprintf("a read returned %d bytes that do not start like a written packet", len(p))
			}
			return
		}
		w, seq := int(p[0]), int(p[1])|int(p[2])<<8
		if !bytes.Equal(p, mk(w, seq, len(p))) && corrupt == "" {
			corrupt = fmt.Sprintf("packet of writer %d seq %d (%d bytes) came out with different bytes", w, seq, len(p))
		}
		got = append(got, rec{w, seq, len(p)})
	}
	var wg sync.WaitGroup
	seeds := make([]int64, nw)
	for w := range seeds {
		seeds[w] = rng.Int63()
	}
	for w := 0; w < nw; w++ {
		wg.Add(1)
		go func(w int) {
			defer wg.Done()
			wr := rand.New(rand.NewSource(seeds[w]))
			for seq := 0; seq < per; seq++ {
				n := 2000 + wr.Intn(58000)
				p := mk(w, seq, n)
				_, err := b.Write(p)
				for i := range p {
					p[i] = 0x11
				}
				if err == nil {
					mu.Lock()
					accepted[[2]int{w, seq}] = n
					mu.Unlock()
				}
			}
		}(w)
	}
	stopR := make(chan struct{})
	rdone := make(chan struct{})
	go func() {
		defer close(rdone)
		if !slowReader {
			return
		}
		buf := make([]byte, 70000)
		for {
			select {
			case <-stopR:
				return
			default:
			}
			b.SetReadDeadline(time.Now().Add(2 * time.Millisecond))
			n, err := b.Read(buf)
			if err == nil {
				mu.Lock()
				check(append([]byte{}, buf[:n]...))
				mu.Unlock()
				time.Sleep(50 * time.Microsecond)
			}
		}
	}()
	wg.Wait()
	close(stopR)
	<-rdone
	b.SetReadDeadline(time.Time{})
	b.Close()
	buf := make([]byte, 70000)
	for k := 0; ; k++ {
		n, err := b.Read(buf)
		if err != nil {
			break
		}
		check(append([]byte{}, buf[:n]...))
		if k > nw*per+10 {
			return fmt.Sprintf("the closed buffer keeps returning packets: %d reads after Close although only %d packets were ever written", k, nw*per)
		}
	}
	r.Count("bulk_histories", 1)
	r.Count("bulk_packets_written", int64(len(accepted)))
	if corrupt != "" {
		return corrupt
	}
	next := make([]int, nw)
	seen := map[[2]int]bool{}
	for _, g := range got {
		k := [2]int{g.w, g.seq}
		n, ok := accepted[k]
		switch {
		case !ok:
			return fmt.Sprintf("a packet of writer %d seq %d came out although its Write did not succeed", g.w, g.seq)
		case seen[k]:
			return fmt.Sprintf("packet of writer %d seq %d came out twice", g.w, g.seq)
		case n != g.n:
			return fmt.Sprintf("packet of writer %d seq %d was written with %d bytes and came out with %d", g.w, g.seq, n, g.n)
		case g.seq < next[g.w]:
			return fmt.Sprintf("writer %d: packet %d came out after packet %d", g.w, g.seq, next[g.w]-1)
		}
		seen[k] = true
		next[g.w] = g.seq + 1
	}
	if len(got) != len(accepted) {
		return fmt.Sprintf("%d packets were written successfully by %d concurrent writers, %d came out before end-of-file", len(accepted), nw, len(got))
	}
	if b.Count() != 0 || b.Size() != 0 {
		return fmt.Sprintf("after draining Count=%d Size=%d", b.Count(), b.Size())
	}
	return ""
}

// limitHistory (C07 under concurrency): a buffer is filled until its ring has a chosen size (up to several MiB), then a
// count limit of Count()+k or a size limit leaving room for exactly k more packets of the chosen length is set and
// several writers are released at once, each attempting a few writes of that length. Nobody reads meanwhile, so the
// occupancy only grows and the expected outcome does not depend on the interleaving: exactly min(k, attempts) writes
// are accepted, the others are refused with ErrFull, Count and Size are exact afterwards, and everything accepted comes
// out intact.
func limitHistory(rng *rand.Rand, r *res.Result) string {
	b := packetio.NewBuffer()
	fillTo := []int{1000, 100_000, 200_000, 1_000_000, 3_000_000}[rng.Intn(5)]
	psize := []int{10, 1000, 60000}[rng.Intn(3)]
	var sizeLimit bool
	if rng.Intn(3) == 0 {
		sizeLimit = true
	}
	if fillTo > 2_500_000 || sizeLimit {
		b.SetLimitSize(16 * 1024 * 1024) // keep the 4 MiB default cap out of the way
	}
	pre := 0
	for b.Size() < fillTo {
		if _, err := b.Write(fillBytes(30000, uint32(pre))); err != nil {
			return ""
		}
		pre++
	}
	k := 1 + rng.Intn(3)
	if sizeLimit {
		b.SetLimitSize(b.Size() + k*(psize+2) + rng.Intn(psize+2))
	} else {
		b.SetLimitCount(b.Count() + k)
	}
	nw := 3 + rng.Intn(6)
	per := 1 + rng.Intn(2)
	var acc, ref, other int32
	start := make(chan struct{})
	var wg sync.WaitGroup
	for w := 0; w < nw; w++ {
		wg.Add(1)
		go func(w int) {
			defer wg.Done()
			p := fillBytes(psize, uint32(1000+w))
			<-start
			for i := 0; i < per; i++ {
				_, err := b.Write(p)
				switch {
				case err == nil:
					atomic.AddInt32(&acc, 1)
				case errors.Is(err, packetio.ErrFull):
					atomic.AddInt32(&ref, 1)
				default:
					atomic.AddInt32(&other, 1)
				}
			}
		}(w)
	}
	close(start)
	wg.Wait()
	r.Count("limit_histories", 1)
	want := k
	if nw*per < k {
		want = nw * per
	}
	kind := "count"
	if sizeLimit {
		kind = "size"
	}
	if other != 0 {
		return fmt.Sprintf("%d concurrent writes failed with an error other than ErrFull", other)
	}
	if int(acc) != want {
		return fmt.Sprintf("%s limit with room for exactly %d more packets of %d bytes (ring filled to %d bytes before): %d of %d concurrent writes were accepted, %d refused", kind, k, psize, fillTo, acc, nw*per, ref)
	}
	if b.Count() != pre+want || b.Size() != pre*30002+want*(psize+2) {
		return fmt.Sprintf("after the concurrent writes Count=%d Size=%d, expected %d and %d", b.Count(), b.Size(), pre+want, pre*30002+want*(psize+2))
	}
	buf := make([]byte, 70000)
	for i := 0; i < pre+want; i++ {
		n, err := b.Read(buf)
		if err != nil {
			return fmt.Sprintf("read %d of %d failed: %v", i, pre+want, err)
		}
		if i < pre && !bytes.Equal(buf[:n], fillBytes(30000, uint32(i))) {
			return fmt.Sprintf("pre-filled packet %d came out with different bytes", i)
		}
		if i >= pre && n != psize {
			return fmt.Sprintf("packet %d came out with %d bytes, want %d", i, n, psize)
		}
	}
	if b.Count() != 0 || b.Size() != 0 {
		return fmt.Sprintf("after draining Count=%d Size=%d", b.Count(), b.Size())
	}
	return ""
}

var clock int64

func tick() int64 { return atomic.AddInt64(&clock, 1) }

func concHistory(rng *rand.Rand, r *res.Result) (ops []porcupine.Operation, corrupt string) {
	b := packetio.NewBuffer()
	concSize = []int{97, 97, 700, 1500}[rng.Intn(4)]
	W := 1 + rng.Intn(3)
	R := 1 + rng.Intn(3)
	perW := 2 + rng.Intn(5)
	total := W * perW
	var mu sync.Mutex
	rec := func(o porcupine.Operation) {
		mu.Lock()
		ops = append(ops, o)
		mu.Unlock()
	}
	var wg, rwg sync.WaitGroup
	spin := func(n int) {
		for i := 0; i < n; i++ {
			runtime.Gosched()
		}
	}
	seeds := make([]int64, W+R)
	for i := range seeds {
		seeds[i] = rng.Int63()
	}
	closeEarly := rng.Intn(4) == 0
	for w := 0; w < W; w++ {
		wg.Add(1)
		go func(w int) {
			defer wg.Done()
			lr := rand.New(rand.NewSource(seeds[w]))
			for i := 0; i < perW; i++ {
				id := 1 + w*perW + i
				p := idPayload(id)
				spin(lr.Intn(4))
				t0 := tick()
				_, err := b.Write(p)
				t1 := tick()
				for j := range p {
					p[j] = 0
				}
				out := cout{}
				if err != nil {
					out = cout{ID: -2, Err: err.Error()}
				}
				rec(porcupine.Operation{ClientId: w, Input: cin{Write: true, ID: id}, Call: t0, Output: out, Return: t1})
			}
		}(w)
	}
	for q := 0; q < R; q++ {
		rwg.Add(1)
		go func(q int) {
			defer rwg.Done()
			lr := rand.New(rand.NewSource(seeds[W+q]))
			dst := make([]byte, 2000)
			for {
				spin(lr.Intn(4))
				t0 := tick()
				n, err := b.Read(dst)
				t1 := tick()
				out := cout{}
				if err == io.EOF {
					out.ID = -1
				} else if err != nil {
					out = cout{ID: -3, Err: err.Error()}
				} else {
					id := int(dst[0]) | int(dst[1])<<8
					out.ID = id
					if !bytes.Equal(dst[:n], idPayload(id)) {
						mu.Lock()
						corrupt = fmt.Sprintf("reader %d got %d bytes that are not the payload of packet %d", q, n, id)
						mu.Unlock()
					}
				}
				rec(porcupine.Operation{ClientId: W + q, Input: cin{}, Call: t0, Output: out, Return: t1})
				if err != nil {
					return
				}
			}
		}(q)
	}
	if closeEarly {
		spin(rng.Intn(30))
		t0 := tick()
		b.Close()
		t1 := tick()
		rec(porcupine.Operation{ClientId: W + R, Input: cin{Close: true}, Call: t0, Output: cout{}, Return: t1})
		wg.Wait()
	} else {
		wg.Wait()
		spin(rng.Intn(10))
		t0 := tick()
		b.Close()
		t1 := tick()
		rec(porcupine.Operation{ClientId: W + R, Input: cin{Close: true}, Call: t0, Output: cout{}, Return: t1})
	}
	rwg.Wait()
	_ = total
	return ops, corrupt
}

func main() {
	prop := flag.String("prop", "C06", "")
	mode := flag.String("mode", "seq", "seq|conc")
	tier := flag.String("tier", "quick", "")
	seed := flag.Int64("seed", 1, "")
	shard := flag.Int("shard", 0, "")
	nshard := flag.Int("nshard", 1, "")
	out := flag.String("out", "", "")
	replay := flag.String("replay", "", "")
	flag.Parse()
	r := res.New(*prop)
	rng := rand.New(rand.NewSource(*seed*7777 + int64(*shard)*131 + 5))
	if *replay != "" {
		b, _ := os.ReadFile(*replay)
		var w struct {
			Witness hist `json:"witness"`
		}
		if err := json.Unmarshal(b, &w); err != nil || len(w.Witness.Ops) == 0 {
			fmt.Fprintln(os.Stderr, "replay: witness has no sequential history (concurrent witnesses are re-checked by re-running the stage)", err)
			os.Exit(2)
		}
		r.Eval(1)
		if v := replayHist(*prop, &w.Witness, r); v != nil {
			r.Violate(v.key, v.desc, &w.Witness)
		}
		r.Write(*out)
		return
	}
	switch *mode {
	case "seq":
		r.Rule = "seeded histories of Write/Read/SetLimitCount/SetLimitSize/Close, steered by the live ring layout (packet ends aimed at ring end +-2, room to the limit aimed at -1/0/+1); oracle = FIFO of byte slices + count/size/limit model compared after every op; distinct = (ring capacity, header/payload position relative to ring end, growth, limit-approach) cells reached"
		n := 2000
		if *tier == "thorough" {
			n = 96000
		}
		n /= *nshard
		seen := map[string]int{}
		for i := 0; i < n; i++ {
			big := i%12 == 11
			h, v := runHistory(*prop, rng, r, big)
			r.Eval(1)
			if i == 0 && *shard == 0 {
				s := *h
				if len(s.Ops) > 15 {
					s.Ops = s.Ops[:15]
				}
				r.Sample(s)
			}
			if v != nil {
				seen[v.key]++
				if seen[v.key] <= 2 {
					r.Violate(v.key, v.desc, h)
				}
			}
		}
	case "conclimit":
		r.Rule = "limits under concurrency: a buffer filled to {1 KB, 100 KB, 200 KB, 1 MB, 3 MB} gets a count limit of Count()+k or a size limit with room for exactly k more packets (k = 1..3), then 3-8 writers released at once attempt 1-2 writes each while nobody reads: exactly min(k, attempts) writes are accepted, the rest get ErrFull, Count and Size are exact and everything comes out intact; distinct = (fill, packet size, limit kind, k, writers) cells"
		n := 400
		if *tier == "thorough" {
			n = 4000
		}
		n /= *nshard
		seen := 0
		for i := 0; i < n && seen < 3; i++ {
			ld := make(chan string, 1)
			go func() { ld <- limitHistory(rng, r) }()
			select {
			case why := <-ld:
				r.Eval(1)
				if why != "" {
					seen++
					r.Violate("conc-limit", why, map[string]interface{}{"phase": "conclimit", "seed": *seed, "shard": *shard, "history": i})
				}
			case <-time.After(60 * time.Second):
				var stuck []string
				for _, g := range gstate.Snapshot() {
					if f := g.Innermost("pion/transport/v3/packetio."); f != "" && gstate.Blocked(g.State) {
						stuck = append(stuck, f+" ["+g.State+"]")
					}
				}
				if len(stuck) > 0 {
					r.Violate("conc-stuck", fmt.Sprintf("concurrent writers against a limit did not finish within 60 s: goroutines are parked inside the buffer: %v", stuck), nil)
				} else {
					r.Inconc("limit history did not finish within 60 s, nothing parked inside packetio")
				}
				r.Write(*out)
				os.Exit(0)
			}
		}
	case "conc":
		r.Rule = "concurrent histories (1-3 writers x 1-3 readers, unique packet ids, Close early or late) recorded at the API boundary with one atomic logical clock; oracle = porcupine linearizability against queue+closed model, plus byte-exact payload check; distinct = distinct operation orders (hash of the recorded return order)"
		n := 6000
		if *tier == "thorough" {
			n = 96000
		}
		n /= *nshard
		mdl := queueModel()
		for i := 0; i < n; i++ {
			if i%40 == 7 {
				bd := make(chan string, 1)
				go func() { bd <- bulkHistory(rng, r) }()
				select {
				case why := <-bd:
					r.Eval(1)
					if why != "" {
						r.Violate("conc-bulk", "concurrent writers with a large backlog: "+why, map[string]interface{}{"phase": "bulk", "seed": *seed, "shard": *shard, "history": i})
					}
				case <-time.After(60 * time.Second):
					var stuck []string
					for _, g := range gstate.Snapshot() {
						if f := g.Innermost("pion/transport/v3/packetio."); f != "" && gstate.Blocked(g.State) {
							stuck = append(stuck, f+" ["+g.State+"]")
						}
					}
					if len(stuck) > 0 {
						r.Violate("conc-stuck", fmt.Sprintf("concurrent writers with a large backlog did not finish within 60 s: goroutines are parked inside the buffer: %v", stuck), nil)
					} else {
						r.Inconc("bulk history did not finish within 60 s, nothing parked inside packetio")
					}
					r.Write(*out)
					os.Exit(0)
				}
				continue
			}
			// a history ends when every writer has returned, Close has returned and every reader has seen an error; if it
			// does not end within 20 s, and the goroutines that are left sit inside packetio (parked), the buffer has
			// wedged them (for example a lock left held by a panic, or a reader that Close did not release)
			type hres struct {
				ops     []porcupine.Operation
				corrupt string
			}
			hc := make(chan hres, 1)
			go func() { o, c := concHistory(rng, r); hc <- hres{o, c} }()
			var ops []porcupine.Operation
			var corrupt string
			select {
			case h := <-hc:
				ops, corrupt = h.ops, h.corrupt
			case <-time.After(20 * time.Second):
				var stuck []string
				for _, g := range gstate.Snapshot() {
					if f := g.Innermost("pion/transport/v3/packetio."); f != "" && gstate.Blocked(g.State) {
						stuck = append(stuck, f+" ["+g.State+"]")
					}
				}
				if len(stuck) > 0 {
					r.Violate("conc-stuck", fmt.Sprintf("a concurrent history did not finish within 20 s (every writer done, Close called): goroutines are parked inside the buffer: %v", stuck), nil)
				} else {
					r.Inconc("concurrent history did not finish within 20 s, nothing parked inside packetio")
				}
				r.Write(*out)
				os.Exit(0)
			}
			r.Eval(1)
			r.Count("conc_ops", int64(len(ops)))
			sig := ""
			for _, o := range ops {
				sig += fmt.Sprintf("%d:%v;", o.ClientId, o.Output)
			}
			r.DistinctKey(sig)
			if corrupt != "" {
				r.Violate("conc-corrupt", corrupt, describe(mdl, ops))
				continue
			}
			resu, _ := porcupine.CheckOperationsVerbose(mdl, ops, 10*time.Second)
			switch resu {
			case porcupine.Ok:
				r.Count("linearizable", 1)
			case porcupine.Unknown:
				r.Inconc("porcupine timeout")
			case porcupine.Illegal:
				r.Violate("not-linearizable", "concurrent history is not linearizable against the FIFO queue model", describe(mdl, ops))
			}
			if i == 0 && *shard == 0 {
				r.Sample(describe(mdl, ops))
			}
		}
	}
	r.Write(*out)
}

func describe(m porcupine.Model, ops []porcupine.Operation) []string {
	var s []string
	for _, o := range ops {
		s = append(s, fmt.Sprintf("c%d [%d,%d] %s", o.ClientId, o.Call, o.Return, m.DescribeOperation(o.Input, o.Output)))
	}
	return s
}

func min(a, b int) int {
	if a < b {
		return a
	}
	return b
}

func max(a, b int) int {
	if a > b {
		return a
	}
	return b
}
