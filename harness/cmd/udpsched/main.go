// Command udpsched: schedule exploration of the UDP listener's lifetime rules (C12), flavour C (cooperative scheduler,
// real loopback sockets).
package main

import (
	"encoding/json"
	"errors"
	"flag"
	"fmt"
	"math/rand"
	"net"
	"os"
	"strconv"
	"strings"
	"sync"
	"sync/atomic"
	"syscall"
	"time"

	"github.com/pion/transport/v3/deadline"
	"github.com/pion/transport/v3/packetio"
	"github.com/pion/transport/v3/udp"
	"verifharness/internal/gstate"
	"verifharness/internal/res"
	"verifharness/internal/sched"
)

type scen struct {
	Accepted   int `json:"accepted"`
	Unaccepted int `json:"unaccepted"`
	// Overflow: the listener's backlog is 1 and two more remotes than it holds send their first datagram before anybody
	// accepts: the excess is refused and must leave nothing behind that keeps the socket open later
	Overflow   bool   `json:"overflow,omitempty"`
	LClose     int    `json:"listener_close"` // 0 none, 1 once, 2 twice
	CClose     []int  `json:"conn_close"`     // per accepted conn: 0 none, 1 once, 2 twice (two tasks)
	PendAccept bool   `json:"pending_accept"`
	PendRead   []bool `json:"pending_read"`
	// TwoReaders: connections with a pending Read get a second goroutine blocked in Read as well (Close unblocks ALL
	// pending reads)
	TwoReaders bool     `json:"two_readers,omitempty"`
	Late       string   `json:"late,omitempty"` // "", "new" (from an unknown remote), "known" (from accepted conn 0's remote)
	Batch      bool     `json:"batch"`
	PendWrite  int      `json:"pending_write,omitempty"` // batch only: a write still sitting in the unflushed batch at Close; 1 = small, 2 = larger than a datagram can be (its flush fails)
	Filter     bool     `json:"accept_filter,omitempty"` // an AcceptFilter that admits everything (user code running inside the read loop)
	Strategy   string   `json:"strategy"`
	Seed       int64    `json:"seed"`
	Trace      []string `json:"trace,omitempty"`
	Prefix     []int    `json:"prefix,omitempty"`
}

type result struct {
	key, desc string
	trace     []string
	steps     int
	outcome   sched.Outcome
	closeOrd  string
	// lateAccepted: the pending Accept returned a connection only after the quiescent point had been inspected
	lateAccepted bool
	// openAtLastClose: the socket was still open at the instant the last Close call had returned (it was closed a moment later)
	openAtLastClose bool
}

// bindable reports whether this process no longer holds a UDP socket bound to 127.0.0.1:port.
// Binding the port again is not used as the oracle (with parallel checks another process may grab a freed ephemeral
// port at once), and /proc/net/udp is not read either (its listing is not atomic under socket churn): every file
// descriptor of this process is asked for its local address with getsockname.
func bindable(port int) bool {
	ents, err := os.ReadDir("/proc/self/fd")
	if err != nil {
		panic(err)
	}
	for _, e := range ents {
		fd, err := strconv.Atoi(e.Name())
		if err != nil {
			continue
		}
		sa, err := syscall.Getsockname(fd)
		if err != nil {
			continue
		}
		if a4, ok := sa.(*syscall.SockaddrInet4); ok && a4.Port == port {
			if t, err := syscall.GetsockoptInt(fd, syscall.SOL_SOCKET, syscall.SO_TYPE); err == nil && t == syscall.SOCK_DGRAM {
				// the harness' own client sockets are connected (DialUDP) and may be given the freed port by the
				// kernel; the listener's socket is unconnected
				if _, err := syscall.Getpeername(fd); err != nil {
					return false
				}
			}
		}
	}
	return true
}

// caseFirstGoID: goroutines with a smaller id existed before the current case started (left over from an earlier case
// of this process) and are not attributed to it.
var caseFirstGoID int64

func udpGoroutines() []string {
	var out []string
	for _, g := range gstate.Snapshot() {
		if g.ID < caseFirstGoID {
			continue
		}
		if f := g.Innermost("pion/transport/v3/udp."); f != "" {
			out = append(out, f+" ["+g.State+"]")
		}
	}
	return out
}

func runOne(sc *scen, st sched.Strategy, settle bool, hit map[int]bool) (rs result) {
	caseFirstGoID = 0
	for _, g := range gstate.Snapshot() {
		if g.ID >= caseFirstGoID {
			caseFirstGoID = g.ID + 1
		}
	}
	s := sched.New(st)
	s.Settle = settle
	s.MaxSteps = 1500
	udp.VerifYield = nil
	packetio.VerifYield = nil
	deadline.VerifYield = nil
	lc := udp.ListenConfig{}
	if sc.Batch {
		lc.Batch = udp.BatchIOConfig{Enable: true, ReadBatchSize: 4, WriteBatchSize: 1, WriteBatchInterval: 2 * time.Millisecond}
		if sc.PendWrite > 0 {
			lc.Batch.WriteBatchSize = 16 // writes stay in the batch until it is full or the (long) interval passes: flushed by Close
			lc.Batch.WriteBatchInterval = 60 * time.Millisecond
		}
	}
	if sc.Filter {
		lc.AcceptFilter = func([]byte) bool { return true }
	}
	if sc.Overflow {
		lc.Backlog = 1
	}
	l, err := lc.Listen("udp", &net.UDPAddr{IP: net.IPv4(127, 0, 0, 1)})
	if err != nil {
		return result{key: "", desc: "inconclusive: listen: " + err.Error()}
	}
	port := l.Addr().(*net.UDPAddr).Port
	var clients []*net.UDPConn
	dial := func() *net.UDPConn {
		c, err := net.DialUDP("udp", nil, l.Addr().(*net.UDPAddr))
		if err != nil {
			panic(err)
		}
		clients = append(clients, c)
		return c
	}
	cleanup := func(conns []net.Conn) {
		udp.VerifYield, packetio.VerifYield, deadline.VerifYield = nil, nil, nil
		var w sync.WaitGroup
		w.Add(1)
		go func() { defer w.Done(); defer func() { recover() }(); l.Close() }()
		for _, c := range conns {
			if c != nil {
				c := c
				w.Add(1)
				go func() { defer w.Done(); defer func() { recover() }(); c.Close() }()
			}
		}
		d := make(chan struct{})
		go func() { w.Wait(); close(d) }()
		select {
		case <-d:
		case <-time.After(2 * time.Second):
		}
		for _, c := range clients {
			c.Close()
		}
	}
	// setup (unscheduled): accepted connections
	var conns []net.Conn
	var cl []*net.UDPConn
	for i := 0; i < sc.Accepted; i++ {
		c := dial()
		cl = append(cl, c)
		c.Write([]byte(fmt.Sprintf("hello%d", i)))
		ac, err := l.Accept()
		if err != nil {
			cleanup(conns)
			return result{desc: "inconclusive: setup accept: " + err.Error()}
		}
		buf := make([]byte, 64)
		ac.SetReadDeadline(time.Now().Add(2 * time.Second))
		if n, err := ac.Read(buf); err != nil || string(buf[:n]) != fmt.Sprintf("hello%d", i) {
			cleanup(append(conns, ac))
			if err == nil && strings.HasPrefix(string(buf[:n]), "late") {
				// a datagram of an earlier scenario of this process whose port the kernel has given to this listener
				return result{desc: "inconclusive: setup: a stray datagram of an earlier scenario arrived at the new listener"}
			}
			return result{key: "udp:first-datagram", desc: fmt.Sprintf("first read of an accepted connection = %q,%v", buf[:n], err)}
		}
		ac.SetReadDeadline(time.Time{})
		conns = append(conns, ac)
	}
	if sc.Batch && sc.PendWrite > 0 && len(conns) > 0 {
		n := 100
		if sc.PendWrite == 2 {
			n = 70000
		}
		conns[0].Write(make([]byte, n)) // deferred: sits in the batch until Close flushes it (the flush of 70000 bytes fails)
	}
	nun := sc.Unaccepted
	if sc.Overflow {
		nun += 2
	}
	for i := 0; i < nun; i++ {
		c := dial()
		c.Write([]byte("unaccepted"))
	}
	if nun > 0 {
		time.Sleep(300 * time.Microsecond) // let the read loop queue them (not asserted)
	}
	udp.VerifYield = s.Yield
	packetio.VerifYield = s.Yield
	deadline.VerifYield = s.Yield

	var mu sync.Mutex
	var panics []string
	guard := func(name string, f func()) func() {
		return func() {
			defer func() {
				if p := recover(); p != nil {
					mu.Lock()
					panics = append(panics, fmt.Sprintf("%s: %v", name, p))
					mu.Unlock()
				}
			}()
			f()
		}
	}
	var lcloseDone int32
	closeDone := make([]int32, sc.Accepted)
	var order []string
	note := func(x string) {
		mu.Lock()
		order = append(order, x)
		mu.Unlock()
	}
	for k := 0; k < sc.LClose; k++ {
		s.Go(fmt.Sprintf("LC%d", k), guard("listener.Close", func() {
			l.Close()
			atomic.AddInt32(&lcloseDone, 1)
			note("L")
		}))
	}
	for i := 0; i < sc.Accepted; i++ {
		i := i
		for k := 0; k < sc.CClose[i]; k++ {
			s.Go(fmt.Sprintf("C%d.%d", i, k), guard("conn.Close", func() {
				conns[i].Close()
				atomic.AddInt32(&closeDone[i], 1)
				note(fmt.Sprint(i))
			}))
		}
	}
	var accConn net.Conn
	var accErr error
	var accReturned int32
	if sc.PendAccept {
		s.Go("A", guard("Accept", func() {
			c, err := l.Accept()
			mu.Lock()
			accConn, accErr = c, err
			mu.Unlock()
			atomic.StoreInt32(&accReturned, 1)
		}))
	}
	readRet := make([]int32, sc.Accepted)
	for i := 0; i < sc.Accepted; i++ {
		if !sc.PendRead[i] {
			continue
		}
		i := i
		nrd := 1
		if sc.TwoReaders {
			nrd = 2
		}
		var left int32 = int32(nrd)
		for k := 0; k < nrd; k++ {
			s.Go(fmt.Sprintf("R%d%s", i, []string{"", "b"}[k]), guard("Read", func() {
				buf := make([]byte, 64)
				conns[i].Read(buf)
				if atomic.AddInt32(&left, -1) == 0 {
					atomic.StoreInt32(&readRet[i], 1) // every reader of this connection has returned
				}
			}))
		}
	}
	var dwg sync.WaitGroup
	// a task that the schedule never ran is released when the scheduler stops and runs to its end on its own; the late
	// datagram must have been sent (or not) before this scenario's port can be handed to the next listener
	defer func() {
		dd := make(chan struct{})
		go func() { dwg.Wait(); close(dd) }()
		select {
		case <-dd:
		case <-time.After(5 * time.Second):
		}
	}()
	if sc.Late != "" {
		dwg.Add(1)
		s.Go("D", guard("late datagram", func() {
			defer dwg.Done()
			if sc.Late == "known" && len(cl) > 0 {
				cl[0].Write([]byte("late"))
			} else {
				dial().Write([]byte("late-new"))
			}
		}))
	}
	out := s.Run(5 * time.Second)
	rs = result{trace: s.Trace(), steps: s.Steps(), outcome: out}
	for _, p := range s.PointsHit() {
		hit[p] = true
	}
	s.Stop()
	udp.VerifYield, packetio.VerifYield, deadline.VerifYield = nil, nil, nil
	// "has Accept returned" is read BEFORE its result: the task stores the result first and the flag afterwards, so a
	// set flag guarantees that the result below is the one Accept returned (reading the flag later raced with an Accept
	// returning in between and produced a false "Accept returned (nil, nil)" on a loaded machine)
	accRet := atomic.LoadInt32(&accReturned) == 1
	mu.Lock()
	rs.closeOrd = strings.Join(order, "")
	pan := append([]string{}, panics...)
	ac, aerr := accConn, accErr
	mu.Unlock()
	if !accRet {
		ac, aerr = nil, nil // whatever arrived in between is picked up by the end phase
	}
	all := append([]net.Conn{}, conns...)
	if ac != nil {
		all = append(all, ac)
	}
	fail := func(k, d string) result {
		rs.key, rs.desc = k, d
		cleanup(all)
		return rs
	}
	if len(pan) > 0 {
		return fail("udp:panic", strings.Join(pan, "; "))
	}
	if out == sched.TimedOut {
		cleanup(all)
		rs.desc = "inconclusive: schedule hit the step/wall limit"
		return rs
	}
	lclosed := atomic.LoadInt32(&lcloseDone) > 0
	// parked-goroutine predicates at the quiescent point
	parkedCloses := 0
	if out == sched.Quiescent {
		// a pending task counts as parked only when its goroutine really sits in the select of Accept / Buffer.Read
		inSel := map[int64]bool{}
		for _, g := range gstate.Snapshot() {
			if g.State == "select" && (g.Has("udp.(*listener).Accept") || g.Has("packetio.(*Buffer).Read")) {
				inSel[g.ID] = true
			}
		}
		for _, t := range s.Pending() {
			if (t.Name == "A" || strings.HasPrefix(t.Name, "R")) && !inSel[t.GoID] {
				continue
			}
			switch {
			case strings.HasPrefix(t.Name, "LC") || strings.HasPrefix(t.Name, "C"):
				// a Close call may wait for the socket, i.e. for connections the harness still holds open:
				// it is only required to return once everything has been closed (checked below)
				parkedCloses++
			case t.Name == "A" && lclosed:
				return fail("udp:accept-parked-after-close", "Accept is still blocked although the listener's Close has returned")
			case strings.HasPrefix(t.Name, "R"):
				var i int
				fmt.Sscanf(t.Name, "R%d", &i)
				if atomic.LoadInt32(&closeDone[i]) > 0 {
					return fail("udp:read-parked-after-close", fmt.Sprintf("Read on connection %d is still blocked although its Close has returned", i))
				}
			}
		}
	}
	if sc.PendAccept && accRet && ac == nil && aerr == nil {
		return fail("udp:accept-nil", "Accept returned (nil, nil)")
	}
	// which accepted connections are still open?
	open := map[int]bool{}
	for i := 0; i < sc.Accepted; i++ {
		if atomic.LoadInt32(&closeDone[i]) == 0 && sc.CClose[i] == 0 {
			open[i] = true
		}
	}
	anyOpen := !lclosed && sc.LClose == 0
	for range open {
		anyOpen = true
	}
	if ac != nil {
		anyOpen = true
	}
	// accepted, un-closed connections must still exchange datagrams (also the one handed out by the racing Accept)
	probe := func(name string, c net.Conn, peer *net.UDPConn) (string, string) {
		msg := []byte("probe-" + name)
		if _, err := c.Write(msg); err != nil {
			return "udp:accepted-conn-dead", fmt.Sprintf("%s: write on an accepted, un-closed connection failed: %v (listener closed: %v)", name, err, lclosed)
		}
		if peer != nil && sc.PendWrite != 2 { // a batch that holds the oversize write fails as a whole when it is flushed: nothing can be said about its other datagrams
			peer.SetReadDeadline(time.Now().Add(3 * time.Second))
			buf := make([]byte, 64)
			for {
				n, err := peer.Read(buf)
				if err != nil {
					return "udp:accepted-conn-dead", fmt.Sprintf("%s: datagram written on an accepted, un-closed connection never arrived at its remote: %v", name, err)
				}
				if string(buf[:n]) == string(msg) {
					break
				}
			}
			// a datagram from a brand-new remote right in front of it: with batch reads both arrive in one batch, and
			// what happens to the stranger must not affect the accepted connection
			// (only once the listener is closed: before that the stranger would legitimately become a new connection)
			if lclosed {
				dial().Write([]byte("stranger"))
			}
			peer.Write([]byte("reply-" + name))
			c.SetReadDeadline(time.Now().Add(3 * time.Second))
			for {
				n, err := c.Read(buf)
				if err != nil {
					return "udp:accepted-conn-deaf", fmt.Sprintf("%s: datagram sent to an accepted, un-closed connection never arrived: %v", name, err)
				}
				if string(buf[:n]) == "reply-"+name {
					break
				}
			}
			c.SetReadDeadline(time.Time{})
		}
		return "", ""
	}
	for i := range open {
		if sc.PendRead[i] && atomic.LoadInt32(&readRet[i]) == 0 {
			continue // a reader is parked on it; the write direction is still probed below
		}
		if k, d := probe(fmt.Sprintf("conn%d", i), conns[i], cl[i]); k != "" {
			return fail(k, d)
		}
	}
	if ac != nil {
		if k, d := probe("accepted-by-racing-Accept", ac, nil); k != "" {
			return fail(k, d)
		}
	}
	// the port must not be re-bindable while something is still open
	if anyOpen && bindable(port) {

		return fail("udp:socket-closed-early", fmt.Sprintf("the socket on port %d is closed although the listener or an accepted connection is still open (close order %q)", port, rs.closeOrd))
	}
	// now close everything that is left — concurrently, because a Close call may legitimately wait for the others —
	// then every Close call (the scheduled ones too) must return: decided by parked-goroutine inspection, not a timeout.
	closeAll := func() (string, string) {
		var cmu sync.Mutex
		var cpan []string
		var cwg sync.WaitGroup
		cl := func(c interface{ Close() error }) {
			cwg.Add(1)
			go func() {
				defer cwg.Done()
				defer func() {
					if p := recover(); p != nil {
						cmu.Lock()
						cpan = append(cpan, fmt.Sprint(p))
						cmu.Unlock()
					}
				}()
				c.Close()
			}()
		}
		cl(l)
		for _, c := range all {
			cl(c)
		}
		done := make(chan struct{})
		go func() { cwg.Wait(); close(done) }()
		stable := 0
		t0 := time.Now()
		for {
			select {
			case <-done:
				cmu.Lock()
				defer cmu.Unlock()
				if len(cpan) > 0 {
					return "udp:panic", "Close panicked: " + strings.Join(cpan, "; ")
				}
				// the scheduled Close tasks must have returned as well
				for k := 0; k < 200; k++ {
					n := 0
					for _, t := range s.Pending() {
						if strings.HasPrefix(t.Name, "LC") || strings.HasPrefix(t.Name, "C") {
							n++
						}
					}
					if n == 0 {
						return "", ""
					}
					time.Sleep(100 * time.Microsecond)
				}
				if ps := gstate.ParkedIn(gstate.Snapshot(), "transport/v3/udp.(*"); len(ps) > 0 {
					return "udp:close-deadlock", fmt.Sprintf("everything has been closed but a scheduled Close call is still parked in %s", ps[0].Innermost("transport/v3/udp."))
				}
				return "", ""
			case <-time.After(300 * time.Microsecond):
			}
			ps := gstate.ParkedIn(gstate.Snapshot(), ").Close")
			nclose := 0
			for _, g := range ps {
				if g.Has("transport/v3/udp.(*Conn).Close") || g.Has("transport/v3/udp.(*listener).Close") {
					nclose++
				}
			}
			running := false
			for _, g := range gstate.Snapshot() {
				if g.Has("transport/v3/udp.") && !gstate.Blocked(g.State) {
					running = true
				}
			}
			if nclose > 0 && !running {
				stable++
			} else {
				stable = 0
			}
			if stable >= 5 && time.Since(t0) > 50*time.Millisecond {
				return "udp:close-deadlock", fmt.Sprintf("Close has been called on the listener and on every connection, %d Close call(s) stay parked (%s) and no goroutine of package udp is runnable", nclose, ps[0].Innermost("transport/v3/udp."))
			}
			if time.Since(t0) > 20*time.Second {
				return "", "inconclusive: Close calls neither returned nor parked"
			}
		}
	}
	if k, d := closeAll(); k != "" {
		rs.key, rs.desc = k, d
		for _, c := range clients {
			c.Close()
		}
		return rs
	} else if d != "" {
		rs.desc = d
		return rs
	}
	// a pending Accept may have returned only now - with an error, or with a connection that a late datagram created just
	// before the listener was closed (the quiescent point does not cover datagrams still inside the kernel). That
	// connection is ours to close as well; without this the harness itself would keep the socket open.
	if sc.PendAccept {
		for t0 := time.Now(); atomic.LoadInt32(&accReturned) == 0 && time.Since(t0) < 5*time.Second; {
			time.Sleep(100 * time.Microsecond)
		}
		mu.Lock()
		lateConn := accConn
		mu.Unlock()
		if lateConn != nil && lateConn != ac {
			all = append(all, lateConn)
			rs.lateAccepted = true
		}
	}
	if k, d := closeAll(); k != "" { // idempotent: a second Close on everything
		rs.key, rs.desc = k, d+" (second Close)"
		return rs
	}
	// measurement: is the socket already closed at the instant the last Close call has returned?
	// Every Close call (scheduled ones, the harness' own first and second round) has returned by now. The statement wants
	// the socket closed "once the listener and every accepted connection have been closed": the last Close call waits
	// for the closer goroutine on the unchanged tree (0 exceptions in 318 000 schedules under load), so a socket that is
	// still open here means that no Close call waited for it.
	if !bindable(port) {
		rs.openAtLastClose = true
		return fail("udp:socket-open-after-last-close", fmt.Sprintf("Close has returned on the listener and on every connection (order %q + remaining, twice), and the socket on port %d is still open in this process: no Close call waited for the socket to be closed", rs.closeOrd, port))
	}
	// the last reference may be dropped by two Close calls that both saw a stale connection count and did not wait: the
	// closer goroutine then closes the socket on its own a moment later. Only a closer that is still parked on the
	// reference count (three samples) with the socket open means the socket will never be closed.
	for t0 := time.Now(); !bindable(port); {
		parked := 0
		for k := 0; k < 3; k++ {
			for _, g := range gstate.Snapshot() {
				if g.Has("udp.(*ListenConfig).Listen.func1") && gstate.Blocked(g.State) && g.Has("sync.(*WaitGroup).Wait") {
					parked++
				}
			}
			time.Sleep(300 * time.Microsecond)
		}
		if parked == 3 && !bindable(port) {
			return fail("udp:socket-not-closed", fmt.Sprintf("everything is closed (order %q + remaining) but the socket on port %d is still open in this process and the closer goroutine is parked on the reference count", rs.closeOrd, port))
		}
		if time.Since(t0) > 10*time.Second {
			rs.desc = "inconclusive: socket neither closed nor closer parked"
			return rs
		}
	}
	if sc.Batch {
		time.Sleep(3 * time.Millisecond) // batch ticker period
		if sc.PendWrite > 0 {
			time.Sleep(65 * time.Millisecond) // the batch writer goroutine notices the close at its next tick
		}
	}
	left := udpGoroutines()
	for k := 0; k < 50 && len(left) > 0; k++ {
		time.Sleep(200 * time.Microsecond)
		left = udpGoroutines()
	}
	if len(left) > 0 {
		// three samples, all non-empty
		time.Sleep(5 * time.Millisecond)
		if l2 := udpGoroutines(); len(l2) > 0 {
			return fail("udp:goroutine-leak", fmt.Sprintf("after everything was closed goroutines of package udp are still present: %v", l2))
		}
	}
	for _, c := range clients {
		c.Close()
	}
	return rs
}

func closeNoPanic(c interface{ Close() error }) (msg string) {
	defer func() {
		if p := recover(); p != nil {
			msg = fmt.Sprintf("Close panicked: %v", p)
		}
	}()
	done := make(chan struct{})
	go func() {
		defer func() {
			if p := recover(); p != nil {
				msg = fmt.Sprintf("Close panicked: %v", p)
			}
			close(done)
		}()
		c.Close()
	}()
	select {
	case <-done:
	case <-time.After(5 * time.Second):
		return "" // inconclusive; counted by caller through goroutine leak probe
	}
	return msg
}

func genScen(rng *rand.Rand) *scen {
	sc := &scen{Accepted: rng.Intn(4), Unaccepted: rng.Intn(3), Seed: rng.Int63()}
	defer func() { sc.Overflow = sc.Seed%5 == 0; sc.TwoReaders = sc.Seed%3 == 1 }()
	sc.LClose = []int{1, 1, 1, 2, 0}[rng.Intn(5)]
	for i := 0; i < sc.Accepted; i++ {
		sc.CClose = append(sc.CClose, []int{1, 1, 2, 0}[rng.Intn(4)])
		sc.PendRead = append(sc.PendRead, rng.Intn(3) == 0)
	}
	sc.PendAccept = rng.Intn(2) == 0
	sc.Late = []string{"", "", "new", "known"}[rng.Intn(4)]
	sc.Batch = rng.Intn(5) == 0
	sc.Filter = rng.Intn(3) == 0
	if sc.Batch && sc.Accepted > 0 && rng.Intn(2) == 0 {
		sc.PendWrite = 1 + rng.Intn(2)
	}
	switch rng.Intn(10) {
	case 0, 1:
		sc.Strategy = "random"
	default:
		sc.Strategy = fmt.Sprintf("pct%d", 2+rng.Intn(3))
	}
	return sc
}

func strat(sc *scen) sched.Strategy {
	rng := rand.New(rand.NewSource(sc.Seed))
	switch {
	case sc.Strategy == "random":
		return &sched.Random{Rng: rng}
	case strings.HasPrefix(sc.Strategy, "pct"):
		return sched.NewPCT(rng, int(sc.Strategy[3]-'0'), 60)
	case sc.Strategy == "forced":
		return &sched.Forced{Want: sc.Trace}
	}
	return &sched.DFS{Prefix: sc.Prefix, Bound: 2}
}

var errNone = errors.New("")

func main() {
	tier := flag.String("tier", "quick", "")
	seed := flag.Int64("seed", 1, "")
	shard := flag.Int("shard", 0, "")
	nshard := flag.Int("nshard", 1, "")
	out := flag.String("out", "", "")
	replay := flag.String("replay", "", "")
	flag.Parse()
	_ = nshard
	r := res.New("C12")
	r.Rule = "scenarios with 0-3 accepted and 0-2 un-accepted connections on a real loopback listener; tasks: listener Close (once/twice), per-connection Close (once/twice), a pending Accept, pending Reads, a late datagram (known / new remote), batch I/O on/off (with a small or an oversize write still pending in the write batch at Close), an accept filter that admits everything (user code inside the read loop) on/off; executed under the cooperative scheduler (yield points in udp/conn.go, udp/batchconn.go, packetio/buffer.go, deadline.go) with PCT d=2..4, random and DFS(preemption<=2) strategies; oracle after each schedule: no panic, nothing parked that a Close must release, every accepted un-closed connection (also one handed out by a racing Accept) still exchanges datagrams, port not re-bindable while anything is open, re-bindable and no goroutine of package udp left once everything is closed, second Close harmless; distinct = distinct schedules"
	r.Assumptions = []string{"loopback UDP delivers a datagram to an open socket within 3 s (used only for must-arrive probes on connections the property requires to be alive)", "goroutine-leak probe samples runtime.Stack until empty, at least 10 ms"}
	hit := map[int]bool{}
	seenKeys := map[string]int{}
	one := func(sc *scen, st sched.Strategy, settle bool) result {
		if *out != "" { // case log: the scenario is on disk before it runs (a hang or crash is attributed to it)
			if b, err := json.Marshal(sc); err == nil {
				os.WriteFile(strings.TrimSuffix(*out, ".json")+".case", b, 0o644)
			}
		}
		rs := runOne(sc, st, settle, hit)
		if rs.openAtLastClose {
			r.Count("socket_still_open_when_the_last_close_returned", 1)
		}
		if rs.lateAccepted {
			r.Count("connections_returned_by_accept_after_the_quiescent_point", 1)
		}
		r.Eval(1)
		r.Count("schedule_steps", int64(rs.steps))
		r.DistinctKey(strings.Join(rs.trace, " "))
		if rs.closeOrd != "" {
			r.Count("schedules_with_close_tasks", 1)
		}
		switch rs.outcome {
		case sched.Quiescent:
			r.Count("quiescent_points_inspected", 1)
		case sched.AllDone:
			r.Count("runs_all_done", 1)
		}
		if rs.key == "" && rs.desc != "" {
			r.Inconc(rs.desc)
		}
		if rs.key != "" {
			seenKeys[rs.key]++
			if seenKeys[rs.key] <= 2 {
				w := *sc
				w.Trace = rs.trace
				r.Violate(rs.key, rs.desc, w)
			}
		} else {
			r.Count("rebind_and_leak_probes", 1)
		}
		return rs
	}
	if *replay != "" {
		b, _ := os.ReadFile(*replay)
		var w struct {
			Witness scen `json:"witness"`
		}
		if err := json.Unmarshal(b, &w); err != nil {
			fmt.Fprintln(os.Stderr, err)
			os.Exit(2)
		}
		sc := w.Witness
		for k := 0; k < 20 && r.NViol() == 0; k++ {
			one(&sc, &sched.Forced{Want: sc.Trace}, true)
		}
		for k := 0; k < 300 && r.NViol() == 0; k++ {
			s2 := sc
			s2.Seed = sc.Seed + int64(k)
			one(&s2, strat(&s2), false)
		}
		r.Write(*out)
		return
	}
	n := 600
	if *tier == "thorough" {
		n = 6000
	}
	rng := rand.New(rand.NewSource(*seed*701 + int64(*shard)*47 + 23))
	shapes := []scen{
		{Accepted: 0, Unaccepted: 1, LClose: 1, PendAccept: true},
		{Accepted: 1, Unaccepted: 0, LClose: 1, CClose: []int{1}, PendRead: []bool{false}},
		{Accepted: 1, Unaccepted: 1, LClose: 1, CClose: []int{1}, PendRead: []bool{false}, PendAccept: true},
		{Accepted: 1, Unaccepted: 0, LClose: 1, CClose: []int{2}, PendRead: []bool{true}},
	}
	dsc := shapes[*shard%len(shapes)]
	dsc.Strategy = "dfs"
	budget := 400
	if *tier == "thorough" {
		budget = 3000
	}
	var prefix []int
	for k := 0; k < budget; k++ {
		d := &sched.DFS{Prefix: prefix, Bound: 2}
		c := dsc
		c.Prefix = prefix
		rs := one(&c, d, true)
		r.Count("dfs_schedules", 1)
		if rs.key != "" {
			break
		}
		prefix = d.Next()
		if prefix == nil {
			r.Count("dfs_frontiers_exhausted", 1)
			break
		}
	}
	for i := 0; i < n; i++ {
		sc := genScen(rng)
		one(sc, strat(sc), false)
		if i == 0 && *shard == 0 {
			r.Sample(sc)
		}
	}
	r.Max("max_yield_points_reached", int64(len(hit)))
	r.Write(*out)
}
