// Command pipes: reference-model monitors for dpipe and test.Bridge (C18).
package main

import (
	"bytes"
	"encoding/json"
	"flag"
	"fmt"
	"io"
	"math/rand"
	"net"
	"os"
	"sort"
	"sync"
	"sync/atomic"
	"time"

	"github.com/pion/transport/v3/dpipe"
	"github.com/pion/transport/v3/test"
	"verifharness/internal/gstate"
	"verifharness/internal/res"
)

type op struct {
	K    string `json:"k"`
	D    int    `json:"d"`           // direction / endpoint (sender id)
	N    int    `json:"n,omitempty"` // length / count
	Off  int    `json:"off,omitempty"`
	Fill uint32 `json:"f,omitempty"`
}

type script struct {
	Kind  string `json:"kind"` // dpipe | bridge
	Ops   []op   `json:"ops"`
	RSize []int  `json:"rsize,omitempty"` // bridge: reader slice sizes, cycled
}

func fill(n int, seed uint32) []byte {
	b := make([]byte, n)
	x := seed | 1
	for i := range b {
		x = x*1664525 + 1013904223
		b[i] = byte(x >> 24)
	}
	return b
}

// ---------------- dpipe ----------------

// readWatched performs a Read that the model says cannot block (a message is waiting, or the end is closed). If it has
// not returned after 2 s and its goroutine is parked inside dpipe's Read in three consecutive samples, it is reported
// as blocked (a state predicate, not the clock, decides).
func readWatched(c net.Conn, dst []byte) (int, error, bool) {
	type rr struct {
		n   int
		err error
	}
	ch := make(chan rr, 1)
	idc := make(chan int64, 1)
	go func() {
		idc <- gstate.GoID()
		n, err := c.Read(dst)
		ch <- rr{n, err}
	}()
	id := <-idc
	for {
		select {
		case x := <-ch:
			return x.n, x.err, false
		case <-time.After(2 * time.Second):
		}
		parked := 0
		for k := 0; k < 3; k++ {
			for _, g := range gstate.Snapshot() {
				if g.ID == id && gstate.Blocked(g.State) && g.Has("dpipe.(*conn).Read") {
					parked++
				}
			}
			time.Sleep(2 * time.Millisecond)
		}
		if parked == 3 {
			select {
			case x := <-ch:
				return x.n, x.err, false
			default:
			}
			return 0, nil, true
		}
	}
}

func runDpipe(s *script, r *res.Result) (string, string, int) {
	c0, c1 := dpipe.Pipe()
	ends := []net.Conn{c0, c1}
	var q [2][][]byte // q[e]: messages travelling towards endpoint e
	closed := [2]bool{}
	for i, o := range s.Ops {
		e := o.D
		switch o.K {
		case "w":
			data := fill(o.N, o.Fill)
			keep := append([]byte{}, data...)
			n, err := ends[e].Write(data)
			for j := range data {
				data[j] = ^data[j]
			}
			r.Count("dpipe_writes", 1)
			if closed[e] {
				if err == nil {
					return "dpipe:write-after-close", fmt.Sprintf("op %d: Write on a closed end succeeded", i), i
				}
				continue
			}
			if err != nil || n != o.N {
				why := "dpipe:write-failed"
				if closed[1-e] {
					why = "dpipe:peer-close-affects-write"
				}
				return why, fmt.Sprintf("op %d: Write(len %d) on end %d = (%d,%v) (peer closed: %v)", i, o.N, e, n, err, closed[1-e]), i
			}
			q[1-e] = append(q[1-e], keep)
		case "r":
			if !closed[e] && len(q[e]) == 0 {
				continue // would block
			}
			arr := make([]byte, o.N+8)
			for j := range arr {
				arr[j] = 0x5A
			}
			dst := arr[:o.N:o.N]
			n, err, blocked := readWatched(ends[e], dst)
			if blocked {
				ends[0].Close()
				ends[1].Close()
				return "dpipe:read-blocked", fmt.Sprintf("op %d: Read on end %d is parked inside dpipe (3 samples after 2 s) although %d message(s) written earlier are waiting for it (closed: %v, peer closed: %v): a written message never arrives", i, e, len(q[e]), closed[e], closed[1-e]), i
			}
			r.Count("dpipe_reads", 1)
			if closed[e] {
				if err != io.EOF {
					return "dpipe:read-after-close", fmt.Sprintf("op %d: Read on a closed end = (%d,%v), want EOF", i, n, err), i
				}
				continue
			}
			msg := q[e][0]
			q[e] = q[e][1:]
			want := len(msg)
			if o.N < want {
				want = o.N
				r.Count("dpipe_truncated_reads", 1)
			}
			if err != nil || n != want || !bytes.Equal(dst[:n], msg[:n]) {
				why := "dpipe:read-wrong"
				if closed[1-e] {
					why = "dpipe:peer-close-affects-read"
				}
				return why, fmt.Sprintf("op %d: Read(dst %d) on end %d = (%d,%v), want %d bytes of a %d byte message (peer closed: %v)", i, o.N, e, n, err, want, len(msg), closed[1-e]), i
			}
			for j := n; j < len(arr); j++ {
				if arr[j] != 0x5A {
					return "dpipe:read-overrun", fmt.Sprintf("op %d: Read modified destination beyond n", i), i
				}
			}
			if closed[1-e] {
				r.Count("dpipe_reads_after_peer_close", 1)
			}
		case "close":
			if err := ends[e].Close(); err != nil {
				return "dpipe:close-error", fmt.Sprintf("op %d: Close: %v", i, err), i
			}
			closed[e] = true
			r.Count("dpipe_closes", 1)
		}
	}
	r.DistinctKey("dpipe " + shape(s))
	return "", "", 0
}

func genDpipe(rng *rand.Rand) *script {
	s := &script{Kind: "dpipe"}
	n := 5 + rng.Intn(80)
	out := [2]int{}
	for i := 0; i < n; i++ {
		e := rng.Intn(2)
		switch k := rng.Intn(20); {
		case k < 9 && out[1-e] < 900:
			s.Ops = append(s.Ops, op{K: "w", D: e, N: []int{0, 1, 2, 10, 100, 2000, rng.Intn(2000)}[rng.Intn(7)], Fill: rng.Uint32()})
			out[1-e]++
		case k < 19:
			s.Ops = append(s.Ops, op{K: "r", D: e, N: []int{0, 1, 5, 100, 2000, 4000, rng.Intn(2100)}[rng.Intn(7)]})
		default:
			if i > n/2 {
				s.Ops = append(s.Ops, op{K: "close", D: e})
			}
		}
	}
	// drain
	for e := 0; e < 2; e++ {
		for i := 0; i < 60; i++ {
			s.Ops = append(s.Ops, op{K: "r", D: e, N: 4000})
		}
	}
	return s
}

// ---------------- bridge ----------------

type dirModel struct {
	queue    [][]byte
	dropN    int
	reorderN int
	stack    [][]byte
	filter   byte // 0 none; else: messages whose first byte (or len==0) ... see filterFn
}

func filterFn(mode byte) func([]byte) bool {
	switch mode {
	case 1:
		return func(b []byte) bool { return len(b)%2 == 0 } // pass even lengths
	case 2:
		return func(b []byte) bool { return len(b) > 0 && b[0]&1 == 1 }
	}
	return nil
}

func runBridge(s *script, r *res.Result) (string, string, int) {
	br := test.NewBridge()
	conns := []net.Conn{br.GetConn0(), br.GetConn1()}
	var m [2]dirModel   // m[d]: direction from endpoint d
	var exp [2][][]byte // exp[d]: what endpoint 1-d must read, in order (filled when queue entries are delivered)
	var got [2][][]byte // got[e]: what endpoint e read
	var gmu sync.Mutex
	var wg sync.WaitGroup
	rs := s.RSize
	var rearmed [2]bool
	if len(rs) == 0 {
		rs = []int{4096}
	}
	// pause / resume: while paused no reader is inside Read (they are kicked out with a passed deadline and wait at a
	// gate), so nothing can be handed over: Tick must leave every message in its queue, where Drop / Reorder / Len see it
	var paused int32
	gateAck := make(chan int, 4)
	var gateMu sync.Mutex
	gate := make(chan struct{})
	for e := 0; e < 2; e++ {
		wg.Add(1)
		go func(e int) {
			defer wg.Done()
			k := 0
			for {
				buf := make([]byte, rs[k%len(rs)])
				n, err := conns[e].Read(buf)
				if err != nil && atomic.LoadInt32(&paused) == 1 {
					gateMu.Lock()
					g := gate
					gateMu.Unlock()
					gateAck <- e
					<-g
					continue
				}
				if err != nil {
					return
				}
				k++
				gmu.Lock()
				got[e] = append(got[e], buf[:n])
				gmu.Unlock()
			}
		}(e)
	}
	fail := func(key, desc string, at int) (string, string, int) {
		atomic.StoreInt32(&paused, 0)
		gateMu.Lock()
		close(gate)
		gate = make(chan struct{})
		gateMu.Unlock()
		for e := 0; e < 2; e++ {
			_ = conns[e].SetReadDeadline(time.Now().Add(-time.Second))
		}
		wg.Wait()
		return key, desc, at
	}
	for i, o := range s.Ops {
		d := o.D
		md := &m[d]
		switch o.K {
		case "w":
			data := fill(o.N, o.Fill)
			keep := append([]byte{}, data...)
			n, err := conns[d].Write(data)
			for j := range data {
				data[j] = ^data[j]
			}
			r.Count("bridge_writes", 1)
			if err != nil || n != o.N {
				return fail("bridge:write-failed", fmt.Sprintf("op %d: Write = (%d,%v)", i, n, err), i)
			}
			switch {
			case md.dropN > 0:
				md.dropN--
				r.Count("bridge_dropped_next", 1)
			case md.reorderN > 0:
				md.reorderN--
				md.stack = append(md.stack, keep)
				if md.reorderN == 0 {
					for j := len(md.stack) - 1; j >= 0; j-- {
						md.queue = append(md.queue, md.stack[j])
					}
					r.Count("bridge_reorder_batches", 1)
					r.DistinctKey(fmt.Sprintf("reorder-batch d=%d n=%d", d, len(md.stack)))
					md.stack = nil
				}
			case md.filter != 0 && !filterFn(md.filter)(keep):
				r.Count("bridge_filtered", 1)
			default:
				md.queue = append(md.queue, keep)
			}
		case "dropnext":
			br.DropNextNWrites(d, o.N)
			md.dropN = o.N
		case "reordernext":
			if md.reorderN > 0 {
				// re-armed while the window is still open: the messages held so far stay held and the count starts again;
				// which order that implies is not defined, so this direction is compared as a multiset from here on
				rearmed[d] = true
				r.Count("bridge_reordernext_while_open", 1)
			}
			br.ReorderNextNWrites(d, o.N)
			md.reorderN = o.N
			r.Count("bridge_reordernext_calls", 1)
		case "dropq":
			// resolved against the live model queue: offset+n must lie inside the queue
			if o.Off >= len(md.queue) {
				continue // the offset must lie inside the queue
			}
			// a count that reaches beyond the end of the queue drops what is there from the offset on; the messages in
			// front of the offset were not asked for and stay
			nn := o.N
			if o.Off+nn > len(md.queue) {
				nn = len(md.queue) - o.Off
				r.Count("bridge_drop_calls_beyond_the_end", 1)
			}
			br.Drop(d, o.Off, o.N)
			md.queue = append(append([][]byte{}, md.queue[:o.Off]...), md.queue[o.Off+nn:]...)
			r.Count("bridge_drop_calls", 1)
		case "reorder":
			err := br.Reorder(d)
			if len(md.queue) >= 2 {
				if err != nil {
					return fail("bridge:reorder-error", fmt.Sprintf("op %d: Reorder with %d queued: %v", i, len(md.queue), err), i)
				}
				for a, b := 0, len(md.queue)-1; a < b; a, b = a+1, b-1 {
					md.queue[a], md.queue[b] = md.queue[b], md.queue[a]
				}
				r.Count("bridge_reorder_calls", 1)
			}
		case "filter":
			br.Filter(d, filterFn(byte(o.N)))
			md.filter = byte(o.N)
		case "tick":
			for k := 0; k < o.N; k++ {
				br.Tick()
			}
		case "process":
			if atomic.LoadInt32(&paused) == 0 { // Process loops until the queues are empty: it needs readers
				br.Process()
			}
		case "pause":
			if atomic.LoadInt32(&paused) == 0 {
				atomic.StoreInt32(&paused, 1)
				for e := 0; e < 2; e++ {
					_ = conns[e].SetReadDeadline(time.Now().Add(-time.Second))
				}
				for k := 0; k < 2; k++ {
					select {
					case <-gateAck:
					case <-time.After(5 * time.Second):
						atomic.StoreInt32(&paused, 0)
						return fail("", "inconclusive: readers did not reach the gate", i)
					}
				}
				for e := 0; e < 2; e++ {
					_ = conns[e].SetReadDeadline(time.Time{})
				}
				r.Count("bridge_reader_pauses", 1)
			}
		case "resume":
			if atomic.LoadInt32(&paused) == 1 {
				atomic.StoreInt32(&paused, 0)
				gateMu.Lock()
				close(gate)
				gate = make(chan struct{})
				gateMu.Unlock()
			}
		}
		// Tick/Process move queue heads to readers: the model only needs the final order, so
		// deliveries are accounted for by comparing Len with the model queue length.
		for dd := 0; dd < 2; dd++ {
			l := br.Len(dd)
			if l > len(m[dd].queue) {
				return fail("bridge:queue-longer", fmt.Sprintf("op %d (%s): direction %d holds %d messages, model %d", i, o.K, dd, l, len(m[dd].queue)), i)
			}
			if l < len(m[dd].queue) && atomic.LoadInt32(&paused) == 1 {
				return fail("bridge:delivered-without-reader", fmt.Sprintf("op %d (%s): direction %d holds %d messages, %d are queued and no reader is inside Read: a message left the queue although nobody can have received it (Drop / Reorder / Len no longer see it)", i, o.K, dd, l, len(m[dd].queue)), i)
			}
			for len(m[dd].queue) > l {
				exp[dd] = append(exp[dd], m[dd].queue[0])
				m[dd].queue = m[dd].queue[1:]
			}
		}
	}
	if atomic.LoadInt32(&paused) == 1 {
		atomic.StoreInt32(&paused, 0)
		gateMu.Lock()
		close(gate)
		gate = make(chan struct{})
		gateMu.Unlock()
	}
	br.Process()
	for dd := 0; dd < 2; dd++ {
		exp[dd] = append(exp[dd], m[dd].queue...)
		m[dd].queue = nil
	}
	// readers: wait until they have what the model says (bounded), then stop them
	t0 := time.Now()
	for {
		gmu.Lock()
		done := len(got[1]) >= len(exp[0]) && len(got[0]) >= len(exp[1])
		gmu.Unlock()
		if done || time.Since(t0) > 2*time.Second {
			break
		}
		time.Sleep(50 * time.Microsecond)
		br.Tick()
	}
	time.Sleep(200 * time.Microsecond)
	br.Tick()
	for e := 0; e < 2; e++ {
		_ = conns[e].SetReadDeadline(time.Now().Add(-time.Second))
	}
	wg.Wait()
	for dd := 0; dd < 2; dd++ {
		g := got[1-dd]
		x := exp[dd]
		if rearmed[dd] {
			g = append([][]byte{}, g...)
			x = append([][]byte{}, x...)
			sort.Slice(g, func(i, j int) bool { return bytes.Compare(g[i], g[j]) < 0 })
			sort.Slice(x, func(i, j int) bool { return bytes.Compare(x[i], x[j]) < 0 })
		}
		for k := 0; k < len(g) || k < len(x); k++ {
			if k >= len(x) {
				return "bridge:extra-message", fmt.Sprintf("direction %d: reader got %d messages, script implies %d (message %d has %d bytes)", dd, len(g), len(x), k, len(g[k])), len(s.Ops)
			}
			if k >= len(g) {
				return "bridge:missing-message", fmt.Sprintf("direction %d: reader got %d messages, script implies %d", dd, len(g), len(x)), len(s.Ops)
			}
			want := x[k]
			if sz := rs[k%len(rs)]; sz < len(want) {
				want = want[:sz]
			}
			if !bytes.Equal(g[k], want) {
				return "bridge:wrong-message", fmt.Sprintf("direction %d: message %d differs from what the script implies (got %d bytes, want %d)", dd, k, len(g[k]), len(want)), len(s.Ops)
			}
		}
		r.Count("bridge_delivered", int64(len(g)))
	}
	r.DistinctKey("bridge " + shape(s))
	return "", "", 0
}

func genBridge(rng *rand.Rand) *script {
	s := &script{Kind: "bridge"}
	switch rng.Intn(3) {
	case 0:
		s.RSize = []int{4096}
	case 1:
		s.RSize = []int{4096, 10, 0, 700}
	default:
		s.RSize = []int{1 + rng.Intn(2500)}
	}
	pausing := rng.Intn(3) == 0 // scripts in which the readers are taken out of Read for stretches of the script
	if pausing && rng.Intn(2) == 0 {
		s.Ops = append(s.Ops, op{K: "pause"})
	}
	n := 5 + rng.Intn(56)
	type st struct {
		q, dropN, reorderN int
		filter             int
	}
	var m [2]st
	rearm := false
	for i := 0; i < n; i++ {
		d := rng.Intn(2)
		md := &m[d]
		k := rng.Intn(100)
		switch {
		case k < 50:
			s.Ops = append(s.Ops, op{K: "w", D: d, N: []int{0, 1, 7, 100, 1200, rng.Intn(2000)}[rng.Intn(6)], Fill: rng.Uint32()})
			switch {
			case md.dropN > 0:
				md.dropN--
			case md.reorderN > 0:
				md.reorderN--
			}
			// queue length is tracked only loosely here (ticks deliver): offsets for Drop are chosen right after a known state
		case k < 58 && md.reorderN == 0: // also while a filter is installed: the window counts every write, filtered or not
			nn := 1 + rng.Intn(4)
			s.Ops = append(s.Ops, op{K: "dropnext", D: d, N: nn})
			md.dropN = nn
		case k < 70 && md.reorderN == 0 && md.dropN == 0 && md.filter == 0:
			nn := 1 + rng.Intn(5)
			s.Ops = append(s.Ops, op{K: "reordernext", D: d, N: nn})
			md.reorderN = nn
		case k < 70 && md.reorderN > 0 && rng.Intn(3) == 0:
			// ReorderNextNWrites again while the window is open (n = 1 included)
			nn := 1 + rng.Intn(3)
			s.Ops = append(s.Ops, op{K: "reordernext", D: d, N: nn})
			md.reorderN = nn
			rearm = true
		case k < 76:
			s.Ops = append(s.Ops, op{K: "reorder", D: d})
		case k < 82 && md.reorderN == 0:
			f := rng.Intn(3)
			s.Ops = append(s.Ops, op{K: "filter", D: d, N: f})
			md.filter = f
		case k < 92:
			s.Ops = append(s.Ops, op{K: "tick", N: 1 + rng.Intn(3)})
			if pausing && rng.Intn(3) == 0 {
				s.Ops = append(s.Ops, op{K: []string{"pause", "pause", "resume"}[rng.Intn(3)]})
			}
		case k < 95:
			s.Ops = append(s.Ops, op{K: "process"})
		default:
			s.Ops = append(s.Ops, op{K: "dropq", D: d, Off: rng.Intn(3), N: []int{1, 2, 1, 2, 5, 100}[rng.Intn(6)]})
		}
	}
	if rearm {
		s.RSize = []int{4096} // multiset comparison: no truncation by reader slices
	}
	return s
}

func main() {
	tier := flag.String("tier", "quick", "")
	seed := flag.Int64("seed", 1, "")
	shard := flag.Int("shard", 0, "")
	nshard := flag.Int("nshard", 1, "")
	out := flag.String("out", "", "")
	replay := flag.String("replay", "", "")
	flag.Parse()
	r := res.New("C18")
	r.Rule = "generated scripts; dpipe: Write/Read/Close on both ends against a per-direction FIFO model (reads cut to the slice, whole message consumed, closing one end leaves the other usable); Bridge: writes in both directions interleaved with DropNextNWrites, ReorderNextNWrites (repeated, n=1..5, also called again while its window is still open: that direction is then compared as a multiset), Drop, Reorder, Filter, Tick, Process against a per-direction {queue, dropN, reorderN, stash, filter} model, reader goroutines on both endpoints log what arrives, after Process the logs must equal the model's delivery lists; distinct = script shapes + reorder batch sizes per direction"
	r.Assumptions = []string{"a reorder-next window is never open together with a filter or a drop-next window in the same direction (whether a stashed message is subject to the filter is not defined by the property); a drop-next window and a filter may be active together: the window counts every write, and a message is delivered iff it is neither in the window nor refused by the filter", "Drop offsets lie inside the queue; Reorder only asserted with >= 2 queued"}
	run := func(s *script) (k string, d string, at int) {
		defer func() {
			if p := recover(); p != nil {
				k, d, at = s.Kind+":panic", fmt.Sprintf("panic: %v", p), len(s.Ops)
			}
		}()
		if s.Kind == "dpipe" {
			return runDpipe(s, r)
		}
		return runBridge(s, r)
	}
	if *replay != "" {
		b, _ := os.ReadFile(*replay)
		var w struct {
			Witness script `json:"witness"`
		}
		if err := json.Unmarshal(b, &w); err != nil {
			fmt.Fprintln(os.Stderr, err)
			os.Exit(2)
		}
		r.Eval(1)
		if k, d, _ := run(&w.Witness); k != "" {
			r.Violate(k, d, &w.Witness)
		}
		r.Write(*out)
		return
	}
	n := 800
	if *tier == "thorough" {
		n = 4000
	}
	n /= 1
	rng := rand.New(rand.NewSource(*seed*313 + int64(*shard)*29 + 7))
	seen := map[string]int{}
	for i := 0; i < n; i++ {
		var s *script
		if i%3 == 0 {
			s = genDpipe(rng)
		} else {
			s = genBridge(rng)
		}
		r.Eval(1)
		if i < 3 && *shard == 0 {
			c := *s
			if len(c.Ops) > 14 {
				c.Ops = c.Ops[:14]
			}
			r.Sample(c)
		}
		if seen["bridge:missing-message"]+seen["bridge:extra-message"] >= 3 || seen["dpipe:read-blocked"] >= 3 {
			break // every script with a missing message costs a 2 s wait; three witnesses are enough
		}
		if i%4 == 3 {
			// two scripts at the same time, each on its own pipe / bridge with its own model: instances are independent,
			// what one is asked must not show in the other (the build has the race detector on as well)
			var s2 *script
			if i%8 == 3 {
				s2 = genDpipe(rng)
			} else {
				s2 = genBridge(rng)
			}
			type out struct {
				k, d string
				at   int
			}
			ch := make(chan out, 1)
			go func() { k, d, at := run(s2); ch <- out{k, d, at} }()
			k1, d1, at1 := run(s)
			o2 := <-ch
			r.Count("script_pairs_run_at_the_same_time", 1)
			for _, x := range []struct {
				sc *script
				o  out
			}{{s, out{k1, d1, at1}}, {s2, o2}} {
				if x.o.k != "" {
					k := "paired:" + x.o.k
					seen[x.o.k]++
					seen[k]++
					if seen[k] <= 2 {
						r.Violate(k, x.o.d+" (another script was running on its own instance at the same time)", x.sc)
					}
				}
			}
			continue
		}
		if k, d, at := run(s); k != "" {
			seen[k]++
			if seen[k] <= 2 {
				if at+1 < len(s.Ops) && s.Kind == "dpipe" {
					s.Ops = s.Ops[:at+1]
				}
				r.Violate(k, d, s)
			}
		}
	}
	_ = nshard
	r.Write(*out)
}

// shape is the sequence of operation kinds and directions of a script (sizes and contents ignored).
func shape(s *script) string {
	b := make([]byte, 0, 2*len(s.Ops))
	for _, o := range s.Ops {
		b = append(b, o.K[0], byte('0'+o.D))
		if o.K == "reordernext" || o.K == "dropnext" {
			b = append(b, 'N', byte('0'+o.N))
		}
	}
	return string(b)
}
