// Command vtrace (engine E5): topology + traffic generator, per-router hop log and offline conformance check of the
// virtual network against routing and NAT rules with learned port numbers (C01; end-to-end halves of C02/C03).
package main

import (
	"encoding/json"
	"flag"
	"fmt"
	"math/rand"
	"net"
	"os"
	"sort"
	"strings"
	"sync"
	"sync/atomic"
	"time"

	"github.com/pion/transport/v3/vnet"
	"verifharness/internal/gstate"
	"verifharness/internal/res"
	"verifharness/internal/vn"
)

// ---------------- static description ----------------

type natSpec struct {
	Mode  int               `json:"mode"` // 0 NAPT, 1 1:1
	MapB  int               `json:"map"`
	FilB  int               `json:"filter"`
	Pairs map[string]string `json:"pairs,omitempty"` // wan ip -> local ip (1:1)
	// IdlePairs: static wan/local pairs configured on a NAPT router (StaticIPs "wan/local" without the 1:1 mode); legal and
	// without meaning for a NAPT: the expected behaviour is that of the same router without them
	IdlePairs map[string]string `json:"idle_pairs,omitempty"`
	// Hairpin: NATType.Hairpinning is set. The option is documented as not implemented: traffic of a LAN host to an
	// external address of its own NAT keeps going through the parent router, exactly once
	Hairpin bool `json:"hairpinning,omitempty"`
}

type routerSpec struct {
	Name     string   `json:"name"`
	CIDR     string   `json:"cidr"`
	Parent   int      `json:"parent"` // index, -1 root
	WANs     []string `json:"wan_static,omitempty"`
	NAT      natSpec  `json:"nat"`
	DelayUs  int      `json:"min_delay_us,omitempty"`
	JitterUs int      `json:"max_jitter_us,omitempty"`
}

type sockSpec struct {
	Host    int    `json:"host"`
	IP      string `json:"ip"` // "0.0.0.0" wildcard, "" = first IP of the host
	Port    int    `json:"port"`
	Connect string `json:"connect,omitempty"` // "sock:<i>" resolved to that socket's address as seen from here (public sockets only)
}

type hostSpec struct {
	Router  int      `json:"router"`
	Statics []string `json:"statics,omitempty"`
}

type sendSpec struct {
	Sock  int    `json:"sock"`
	Dst   string `json:"dst"` // literal ip:port or "sock:<i>" (its bound address) or "ext:<i>" (external address under which socket i was last seen by a public socket)
	Size  int    `json:"size"`
	Count int    `json:"count"`
}

type tcase struct {
	Routers []routerSpec `json:"routers"`
	Hosts   []hostSpec   `json:"hosts"`
	Socks   []sockSpec   `json:"socks"`
	Phases  [][]sendSpec `json:"phases"` // phase "reply" is generated at run time from what was received
	Replies bool         `json:"replies"`
	Seed    int64        `json:"seed"`
	// Handover: before the last phase these sockets are closed; with Rebind a successor socket is bound to the same address
	// (it inherits the predecessor's send specs). Datagrams of the last phase must reach the successor only, or nobody.
	Handover []handSpec `json:"handover,omitempty"`
	// QueueSize > 0: every router gets this queue capacity. The ordinary phases then send at most QueueSize-4 datagrams
	// each (the network is flushed between phases), and a last, steady phase keeps SteadyWindow datagrams in flight
	// (credit returned when the destination socket has read the datagram) over flows whose delivery was observed before,
	// SteadyTotal datagrams in all: every queue stays below its capacity all the time, so nothing may be lost.
	QueueSize    int `json:"queue_size,omitempty"`
	SteadyWindow int `json:"steady_window,omitempty"`
	SteadyTotal  int `json:"steady_total,omitempty"`
}

type handSpec struct {
	Sock   int  `json:"sock"`
	Rebind bool `json:"rebind"`
}

// ---------------- runtime model ----------------

type routerM struct {
	spec   routerSpec
	idx    int
	r      *vnet.Router
	ipnet  *net.IPNet
	parent *routerM
	depth  int
	wanIPs []string
	nics   map[string]interface{} // ip -> *hostM | *routerM
	flush  *sockM
	// learned NAT state
	out map[string]*mapM // key: src|mapKey(dst)
	in  map[string]*mapM // key: ext
}

type mapM struct {
	owner   string
	ext     string
	created int
	perms   map[string]int // filterKey -> first phase
}

type hostM struct {
	idx    int
	net    *vnet.Net
	ips    []string
	router *routerM
	socks  []*sockM
}

type recvEv struct {
	seq     int64
	src     string
	payload []byte
}

type sockM struct {
	idx       int
	host      *hostM
	ip        string
	port      int
	conn      net.PacketConn
	connected string
	mu        sync.Mutex
	recv      []recvEv
	done      chan struct{}
	isFlush   bool
	marks     chan struct{}
	from      int    // first phase in which the socket is open
	until     int    // first phase in which it is closed (openEnd: never closed before the end)
	succ      *sockM // socket bound to the same address after this one was closed
	w         *world
}

const openEnd = 1 << 30

// openIn reports whether the socket is bound during the given traffic phase.
func (s *sockM) openIn(phase int) bool { return s.from <= phase && phase < s.until }

type hopEv struct {
	seq    int64
	router int
	tag    string
	src    string
	dst    string
	hash   string
	n      int
}

type sendEv struct {
	sock  *sockM
	src   string
	dst   string
	hash  string
	n     int
	phase int
	id    uint64
}

var evSeq int64

func depKey(b int, a string) string {
	switch b {
	case 0:
		return ""
	case 1:
		h, _, _ := net.SplitHostPort(a)
		return h
	}
	return a
}

type world struct {
	c       *tcase
	routers []*routerM
	hosts   []*hostM
	socks   []*sockM
	hmu     sync.Mutex
	hops    []hopEv
	smu     sync.Mutex
	sends   map[string][]*sendEv // key router|src -> FIFO of sends not yet matched to a tag
	allSend []*sendEv
	phase   int32
	stale   []net.PacketConn // closed predecessor sockets (stale handles)
	// steady phase
	steadyFrom uint64        // payload ids above this one belong to the steady phase (0: not running)
	credits    chan struct{} // one token per datagram that may be in flight
	phaseSent  int32         // datagrams written in the current ordinary phase (QueueSize cases)
}

func (w *world) build() error {
	c := w.c
	for i, rs := range c.Routers {
		cfg := &vnet.RouterConfig{Name: rs.Name, CIDR: rs.CIDR, LoggerFactory: vn.Silent(), MinDelay: time.Duration(rs.DelayUs) * time.Microsecond, MaxJitter: time.Duration(rs.JitterUs) * time.Microsecond, QueueSize: c.QueueSize}
		if rs.Parent >= 0 {
			nt := &vnet.NATType{Mode: vnet.NATMode(rs.NAT.Mode), MappingBehavior: vnet.EndpointDependencyType(rs.NAT.MapB), FilteringBehavior: vnet.EndpointDependencyType(rs.NAT.FilB), Hairpinning: rs.NAT.Hairpin}
			cfg.NATType = nt
			if rs.NAT.Mode == 1 {
				for _, wip := range rs.WANs {
					cfg.StaticIPs = append(cfg.StaticIPs, wip+"/"+rs.NAT.Pairs[wip])
				}
			} else {
				for _, wip := range rs.WANs {
					if loc, ok := rs.NAT.IdlePairs[wip]; ok {
						cfg.StaticIPs = append(cfg.StaticIPs, wip+"/"+loc)
					} else {
						cfg.StaticIPs = append(cfg.StaticIPs, wip)
					}
				}
			}
		}
		r, err := vnet.NewRouter(cfg)
		if err != nil {
			return fmt.Errorf("NewRouter %s: %w", rs.Name, err)
		}
		_, ipn, _ := net.ParseCIDR(rs.CIDR)
		rm := &routerM{spec: rs, idx: i, r: r, ipnet: ipn, nics: map[string]interface{}{}, out: map[string]*mapM{}, in: map[string]*mapM{}}
		if rs.Parent >= 0 {
			rm.parent = w.routers[rs.Parent]
			rm.depth = rm.parent.depth + 1
			if err := rm.parent.r.AddRouter(r); err != nil {
				return fmt.Errorf("AddRouter %s: %w", rs.Name, err)
			}
			for _, ip := range r.VerifAddrs() {
				rm.wanIPs = append(rm.wanIPs, ip.String())
				rm.parent.nics[ip.String()] = rm
			}
			if len(rm.wanIPs) == 0 {
				return fmt.Errorf("router %s has no WAN address", rs.Name)
			}
		}
		idx := i
		r.AddChunkFilter(func(ch vnet.Chunk) bool {
			ev := hopEv{seq: atomic.AddInt64(&evSeq, 1), router: idx, tag: ch.Tag(), src: ch.SourceAddr().String(), dst: ch.DestinationAddr().String(), hash: vn.Hash(ch.UserData()), n: len(ch.UserData())}
			w.hmu.Lock()
			w.hops = append(w.hops, ev)
			w.hmu.Unlock()
			return true
		})
		w.routers = append(w.routers, rm)
	}
	for i, hs := range c.Hosts {
		n, err := vnet.NewNet(&vnet.NetConfig{StaticIPs: hs.Statics})
		if err != nil {
			return err
		}
		rm := w.routers[hs.Router]
		if err := rm.r.AddNet(n); err != nil {
			return fmt.Errorf("AddNet host %d: %w", i, err)
		}
		hm := &hostM{idx: i, net: n, router: rm}
		ifc, err := n.InterfaceByName("eth0")
		if err != nil {
			return err
		}
		addrs, _ := ifc.Addrs()
		for _, a := range addrs {
			if ipn, ok := a.(*net.IPNet); ok {
				hm.ips = append(hm.ips, ipn.IP.String())
				rm.nics[ipn.IP.String()] = hm
			}
		}
		if len(hm.ips) == 0 {
			return fmt.Errorf("host %d has no address", i)
		}
		w.hosts = append(w.hosts, hm)
	}
	// one hidden flush host per router
	for _, rm := range w.routers {
		n, _ := vnet.NewNet(&vnet.NetConfig{})
		if err := rm.r.AddNet(n); err != nil {
			return fmt.Errorf("AddNet flush: %w", err)
		}
		hm := &hostM{idx: -1, net: n, router: rm}
		ifc, _ := n.InterfaceByName("eth0")
		addrs, _ := ifc.Addrs()
		for _, a := range addrs {
			if ipn, ok := a.(*net.IPNet); ok {
				hm.ips = append(hm.ips, ipn.IP.String())
				rm.nics[ipn.IP.String()] = hm
			}
		}
		conn, err := n.ListenUDP("udp", vn.UDP(hm.ips[0], 65000))
		if err != nil {
			return err
		}
		s := &sockM{idx: -1, host: hm, ip: hm.ips[0], port: 65000, conn: conn, isFlush: true, marks: make(chan struct{}, 1024), done: make(chan struct{})}
		hm.socks = append(hm.socks, s)
		rm.flush = s
		go func() {
			buf := make([]byte, 64)
			for {
				if _, _, err := conn.ReadFrom(buf); err != nil {
					close(s.done)
					return
				}
				s.marks <- struct{}{}
			}
		}()
	}
	if err := w.routers[0].r.Start(); err != nil {
		return err
	}
	return nil
}

// failedBinds makes a few bind attempts that must be refused (address already in use) on hosts whose sockets carry
// traffic afterwards: a refused bind must not disturb the socket that owns the address.
func (w *world) failedBinds(rng *rand.Rand, r *res.Result) {
	for _, s := range w.socks {
		if rng.Intn(3) != 0 {
			continue
		}
		ip := s.ip
		if rng.Intn(3) == 0 {
			ip = "0.0.0.0"
		}
		c, err := s.host.net.ListenUDP("udp", vn.UDP(ip, s.port))
		if err == nil {
			// the duplicate bind was accepted: that is C13's business; undo it without touching the table further
			r.Count("duplicate_bind_unexpectedly_accepted", 1)
			_ = c
			continue
		}
		r.Count("refused_duplicate_binds", 1)
	}
}

// closeStale closes the stale handles of closed predecessor sockets once more.
func (w *world) closeStale(r *res.Result) {
	for _, pc := range w.stale {
		_ = pc.Close()
		r.Count("closes_of_stale_predecessor_sockets", 1)
	}
}

func (w *world) openSockets() error {
	prng := rand.New(rand.NewSource(w.c.Seed + 6))
	for i, ss := range w.c.Socks {
		hm := w.hosts[ss.Host]
		ip := ss.IP
		if ip == "" {
			ip = hm.ips[0]
		} else if strings.HasPrefix(ip, "#") { // "#k": k-th address of the host
			var k int
			fmt.Sscanf(ip, "#%d", &k)
			ip = hm.ips[k%len(hm.ips)]
		}
		var conn net.PacketConn
		var err error
		connected := ""
		if ss.Port != 0 && prng.Intn(4) == 0 {
			// a predecessor on the same address, closed before the real socket is bound; its stale handle is closed a
			// second time later (closeStale), which must not disturb the socket that owns the address by then
			if pc, perr := hm.net.ListenUDP("udp", vn.UDP(ip, ss.Port)); perr == nil {
				pc.Close()
				w.stale = append(w.stale, pc)
			}
		}
		if ss.Connect != "" {
			var k int
			fmt.Sscanf(ss.Connect, "sock:%d", &k)
			t := w.socks[k]
			connected = fmt.Sprintf("%s:%d", t.ip, t.port)
			ra, _ := net.ResolveUDPAddr("udp", connected)
			var cc net.Conn
			cc, err = hm.net.DialUDP("udp", vn.UDP(ip, ss.Port), ra)
			if err == nil {
				conn = cc.(net.PacketConn)
			}
		} else {
			conn, err = hm.net.ListenUDP("udp", vn.UDP(ip, ss.Port))
		}
		if err != nil {
			return fmt.Errorf("socket %d (%s:%d on host %d): %w", i, ip, ss.Port, ss.Host, err)
		}
		la := conn.LocalAddr().(*net.UDPAddr)
		s := &sockM{idx: i, host: hm, ip: la.IP.String(), port: la.Port, conn: conn, connected: connected, done: make(chan struct{}), until: openEnd, w: w}
		hm.socks = append(hm.socks, s)
		w.socks = append(w.socks, s)
		s.startReader()
	}
	return nil
}

func (s *sockM) startReader() {
	conn := s.conn
	go func() {
		defer close(s.done)
		buf := make([]byte, 2000)
		for {
			n, from, err := conn.ReadFrom(buf)
			if err != nil {
				return
			}
			ev := recvEv{seq: atomic.AddInt64(&evSeq, 1), src: from.String(), payload: append([]byte{}, buf[:n]...)}
			s.mu.Lock()
			s.recv = append(s.recv, ev)
			s.mu.Unlock()
			if w := s.w; w != nil && n >= 8 {
				// steady phase: a datagram that has been read no longer occupies any queue
				if sf := atomic.LoadUint64(&w.steadyFrom); sf > 0 && vn.PayloadID(buf[:n]) > sf {
					select {
					case w.credits <- struct{}{}:
					default:
					}
				}
			}
		}
	}()
}

// steady keeps SteadyWindow datagrams in flight over flows that were seen to deliver in the last ordinary phase.
func (w *world) steady(pi int, idc *uint64, r *res.Result) (*viol, string) {
	c := w.c
	type flow struct {
		s   *sockM
		dst *net.UDPAddr
	}
	// flows proven by the last ordinary phase: (sender socket, destination) of datagrams that some socket has read
	byID := map[uint64]*sendEv{}
	w.smu.Lock()
	for _, sd := range w.allSend {
		if sd.phase == pi-1 && sd.n >= 8 {
			byID[sd.id] = sd
		}
	}
	w.smu.Unlock()
	var flows []flow
	seen := map[string]bool{}
	for _, t := range w.socks {
		t.mu.Lock()
		for _, g := range t.recv {
			if len(g.payload) < 8 || strings.HasPrefix(g.src, "127.") {
				continue
			}
			sd := byID[vn.PayloadID(g.payload)]
			if sd == nil || !sd.sock.openIn(pi) || vn.Hash(g.payload) != sd.hash {
				continue
			}
			k := fmt.Sprintf("%d>%s", sd.sock.idx, sd.dst)
			if da, err := net.ResolveUDPAddr("udp", sd.dst); err == nil && !seen[k] && !da.IP.IsLoopback() {
				seen[k] = true
				flows = append(flows, flow{sd.sock, da})
			}
		}
		t.mu.Unlock()
	}
	if len(flows) == 0 {
		r.Count("steady_phases_without_a_proven_flow", 1)
		return nil, ""
	}
	sort.Slice(flows, func(i, j int) bool {
		if flows[i].s.idx != flows[j].s.idx {
			return flows[i].s.idx < flows[j].s.idx
		}
		return flows[i].dst.String() < flows[j].dst.String()
	})
	// one flow per sender socket (a socket's writes come from one goroutine), at most four senders
	var use []flow
	for _, f := range flows {
		if len(use) == 0 || use[len(use)-1].s != f.s {
			use = append(use, f)
		}
	}
	if len(use) > 4 {
		use = use[:4]
	}
	atomic.StoreInt32(&w.phase, int32(pi))
	w.credits = make(chan struct{}, c.SteadyWindow)
	for i := 0; i < c.SteadyWindow; i++ {
		w.credits <- struct{}{}
	}
	atomic.StoreUint64(&w.steadyFrom, atomic.LoadUint64(idc))
	// pace the writes so that the datagrams in flight are spread over the routers' delay instead of travelling as one burst
	// (a queue that is emptied in one sweep hides mistakes in its bookkeeping)
	gap := 20 * time.Microsecond
	for _, rm := range w.routers {
		if d := time.Duration(rm.spec.DelayUs) * time.Microsecond / time.Duration(c.SteadyWindow); d > gap {
			gap = d
		}
	}
	var left int32 = int32(c.SteadyTotal)
	var stalled int32
	var wg sync.WaitGroup
	for _, f := range use {
		wg.Add(1)
		go func(f flow) {
			defer wg.Done()
			for atomic.AddInt32(&left, -1) >= 0 && atomic.LoadInt32(&stalled) == 0 {
				select {
				case <-w.credits:
				case <-time.After(10 * time.Second):
					atomic.StoreInt32(&stalled, 1) // credits do not come back: datagrams are missing; the checker says which
					return
				}
				id := atomic.AddUint64(idc, 1)
				w.send(f.s, f.dst, 8+int(id%93), id, pi)
				r.Count("datagrams_sent", 1)
				r.Count("steady_datagrams", 1)
				time.Sleep(gap)
			}
		}(f)
	}
	wg.Wait()
	if atomic.LoadInt32(&stalled) == 0 {
		// wait until everything in flight has been read (all credits are back)
		dl := time.Now().Add(10 * time.Second)
		for len(w.credits) < c.SteadyWindow && time.Now().Before(dl) {
			time.Sleep(200 * time.Microsecond)
		}
		if len(w.credits) < c.SteadyWindow {
			r.Count("steady_phases_with_credits_missing_at_the_end", 1)
			if os.Getenv("VTRACE_DEBUG") != "" {
				for _, f := range use {
					fmt.Fprintf(os.Stderr, "DEBUG steady: flow sock %d (%s:%d conn=%q) -> %s ; missing %d of window %d\n", f.s.idx, f.s.ip, f.s.port, f.s.connected, f.dst, c.SteadyWindow-len(w.credits), c.SteadyWindow)
				}
			}
		}
	} else {
		r.Count("steady_phases_stalled", 1)
	}
	atomic.StoreUint64(&w.steadyFrom, 0)
	r.Count("steady_phases", 1)
	r.DistinctKey(fmt.Sprintf("steady flows=%d window/queue=%d%%", len(use), 100*c.SteadyWindow/c.QueueSize))
	if !w.flushAll() {
		return nil, "inconclusive: flush marker did not return after the steady phase"
	}
	return nil, ""
}

// handover closes the listed sockets before phase pi (the network is flushed, so nothing is in flight) and binds
// successors to the same addresses where asked. Returns a reason when the case cannot go on.
func (w *world) handover(pi int, r *res.Result) string {
	for _, h := range w.c.Handover {
		if h.Sock >= len(w.socks) {
			continue
		}
		s := w.socks[h.Sock]
		if s.connected != "" || s.until != openEnd {
			continue
		}
		s.conn.Close()
		select {
		case <-s.done:
		case <-time.After(5 * time.Second):
			return "inconclusive: reader of a closed socket did not stop"
		}
		s.until = pi
		r.Count("sockets_closed_before_last_phase", 1)
		if !h.Rebind {
			continue
		}
		conn, err := s.host.net.ListenUDP("udp", vn.UDP(s.ip, s.port))
		if err != nil {
			// closing a socket frees its address (C13); report it here as well: the datagrams of the next phase depend on it
			r.Count("rebind_refused", 1)
			continue
		}
		n := &sockM{idx: len(w.socks), host: s.host, ip: s.ip, port: s.port, conn: conn, done: make(chan struct{}), from: pi, until: openEnd}
		s.succ = n
		s.host.socks = append(s.host.socks, n)
		w.socks = append(w.socks, n)
		n.startReader()
		r.Count("sockets_rebound_on_a_freed_address", 1)
	}
	return ""
}

// flushAll sends a marker through every router queue, 2*depth+1 times: a router drains one FIFO in one goroutine, so a
// marker's return proves that everything queued before it has been handled.
func (w *world) flushAll() bool {
	maxDepth := 0
	for _, rm := range w.routers {
		if rm.depth > maxDepth {
			maxDepth = rm.depth
		}
	}
	for wave := 0; wave < 2*maxDepth+2; wave++ {
		for _, rm := range w.routers {
			s := rm.flush
			if _, err := s.conn.WriteTo([]byte("FLUSH"), vn.UDP(s.ip, s.port)); err != nil {
				return false
			}
		}
		for _, rm := range w.routers {
			select {
			case <-rm.flush.marks:
			case <-time.After(10 * time.Second):
				return false
			}
		}
	}
	return true
}

func (s *sockM) srcFor(dst *net.UDPAddr) string {
	ip := s.ip
	if ip == "0.0.0.0" {
		if dst.IP.IsLoopback() {
			ip = "127.0.0.1"
		} else {
			ip = s.host.ips[0]
		}
	}
	return fmt.Sprintf("%s:%d", ip, s.port)
}

func (w *world) send(s *sockM, dst *net.UDPAddr, size int, id uint64, phase int) {
	pl := vn.Payload(id, size)
	keep := append([]byte{}, pl...)
	ev := &sendEv{sock: s, src: s.srcFor(dst), dst: dst.String(), hash: vn.Hash(keep), n: size, phase: phase, id: id}
	loop := dst.IP.IsLoopback()
	if !loop {
		// registered before the write: the hop event may be logged before WriteTo returns
		w.smu.Lock()
		k := fmt.Sprintf("%d|%s", s.host.router.idx, ev.src)
		w.sends[k] = append(w.sends[k], ev)
		w.allSend = append(w.allSend, ev)
		w.smu.Unlock()
	} else {
		w.smu.Lock()
		w.allSend = append(w.allSend, ev)
		w.smu.Unlock()
	}
	var err error
	if s.connected != "" && dst.String() == s.connected {
		_, err = s.conn.(net.Conn).Write(pl)
	} else {
		_, err = s.conn.WriteTo(pl, dst)
	}
	for i := range pl { // the caller may overwrite its buffer as soon as the write returns
		pl[i] = 0xA5
	}
	_ = err
}

// ---------------- offline checker ----------------

type viol struct{ key, desc string }

type tagState struct {
	phase    int
	hash     string
	n        int
	expect   string // "" terminal; else "hop"
	router   *routerM
	src, dst string // expected at the next hop ("?" src = to be learned)
	must     int    // 2 must, 1 may, 0 must-not (next hop must not appear)
	learn    *mapM  // mapping whose external address the next hop reveals
	learnKey string
	learnR   *routerM
	why      string
	from     string // original sender description
	inSrc    string // deferred inbound decision: remote and external address
	inDst    string
}

type delivery struct {
	seq  int64
	src  string
	hash string
	n    int
	tag  string
}

func (w *world) check(r *res.Result) *viol {
	// expected deliveries per socket, in the order of the final hops at the socket's router
	expected := map[*sockM][]delivery{}
	states := map[string]*tagState{}
	sort.Slice(w.hops, func(i, j int) bool { return w.hops[i].seq < w.hops[j].seq })
	shapes := map[string]string{}
	for _, ev := range w.hops {
		R := w.routers[ev.router]
		st := states[ev.tag]
		if st == nil {
			// first hop of a tag: must be a registered send at this router with this source
			k := fmt.Sprintf("%d|%s", ev.router, ev.src)
			q := w.sends[k]
			if len(q) == 0 {
				return &viol{"vnet:invented", fmt.Sprintf("router %s saw chunk tag=%s %s -> %s (%d bytes) that no socket attached to it has written", R.spec.Name, ev.tag, ev.src, ev.dst, ev.n)}
			}
			sd := q[0]
			w.sends[k] = q[1:]
			if sd.dst != ev.dst || sd.hash != ev.hash || sd.n != ev.n {
				return &viol{"vnet:first-hop-mismatch", fmt.Sprintf("datagram written by socket %d to %s (%d bytes, hash %s) entered router %s as %s -> %s (%d bytes, hash %s): modified, reordered or lost before", sd.sock.idx, sd.dst, sd.n, sd.hash, R.spec.Name, ev.src, ev.dst, ev.n, ev.hash)}
			}
			st = &tagState{phase: sd.phase, hash: sd.hash, n: sd.n, from: fmt.Sprintf("socket %d", sd.sock.idx)}
			states[ev.tag] = st
		} else {
			if st.expect == "" {
				return &viol{"vnet:unexpected-hop", fmt.Sprintf("chunk tag=%s (%s) appeared at router %s as %s -> %s after the model had ended its path (%s): duplicated or misrouted", ev.tag, st.from, R.spec.Name, ev.src, ev.dst, st.why)}
			}
			if st.must < 0 {
				// the model had no mapping / permission when this inbound datagram was looked at; admission is legal only
				// if the enabling outbound datagram belongs to this same phase (its translation raced with ours)
				C := st.router
				m := C.in[st.inDst]
				ok := false
				if m != nil && m.created <= st.phase {
					if pp, has := m.perms[depKey(C.spec.NAT.FilB, st.inSrc)]; has && pp == st.phase {
						ok = true
						st.src, st.dst, st.must = st.inSrc, m.owner, 1
					}
				}
				if !ok && m == nil {
					// the enabling outbound datagram may have been translated already while its next hop (where the
					// model learns the external address) has not been logged yet: any not-yet-learned mapping of this
					// phase with a matching permission explains the admission
					fk := depKey(C.spec.NAT.FilB, st.inSrc)
					for _, um := range C.out {
						if um.ext == "" && um.created == st.phase && um.owner == ev.dst {
							if pp, has := um.perms[fk]; has && pp == st.phase {
								ok = true
								st.src, st.dst, st.must = st.inSrc, um.owner, 1
								r.Count("nat_inbound_admitted_before_mapping_learned", 1)
							}
						}
					}
				}
				if !ok {
					st.must = 0
				}
			}
			if st.must == 0 {
				k := "vnet:admitted-must-drop"
				return &viol{k, fmt.Sprintf("chunk tag=%s (%s) was forwarded to router %s as %s -> %s although the rules drop it: %s", ev.tag, st.from, R.spec.Name, ev.src, ev.dst, st.why)}
			}
			if R != st.router {
				return &viol{"vnet:wrong-router", fmt.Sprintf("chunk tag=%s expected next at router %s, seen at %s", ev.tag, st.router.spec.Name, R.spec.Name)}
			}
			if ev.hash != st.hash || ev.n != st.n {
				return &viol{"vnet:payload-changed", fmt.Sprintf("chunk tag=%s payload changed on the way (hash %s -> %s, %d -> %d bytes) at router %s", ev.tag, st.hash, ev.hash, st.n, ev.n, R.spec.Name)}
			}
			if ev.dst != st.dst {
				return &viol{"vnet:wrong-destination", fmt.Sprintf("chunk tag=%s arrived at router %s with destination %s, expected %s (%s)", ev.tag, R.spec.Name, ev.dst, st.dst, st.why)}
			}
			if st.learn != nil {
				// the external address of a new mapping is revealed here
				ea, err := net.ResolveUDPAddr("udp", ev.src)
				NR := st.learnR
				if err != nil || ea.Port < 1 || ea.Port > 65535 || ea.IP.String() != NR.wanIPs[0] {
					return &viol{"vnet:nat-invalid-external", fmt.Sprintf("NAT %s translated %s to %s which is not one of its addresses %v with a valid port", NR.spec.Name, st.learn.owner, ev.src, NR.wanIPs)}
				}
				if o := NR.in[ev.src]; o != nil && o != st.learn {
					return &viol{"vnet:nat-external-shared", fmt.Sprintf("NAT %s gave %s to %s although mapping of %s holds it", NR.spec.Name, ev.src, st.learn.owner, o.owner)}
				}
				st.learn.ext = ev.src
				NR.in[ev.src] = st.learn
				st.learn = nil
				r.Count("nat_mappings_learned", 1)
			} else if ev.src != st.src {
				return &viol{"vnet:wrong-source", fmt.Sprintf("chunk tag=%s arrived at router %s with source %s, expected %s (%s)", ev.tag, R.spec.Name, ev.src, st.src, st.why)}
			}
		}
		shapes[ev.tag] += R.spec.Name + ">"
		// apply the model at R
		st.expect = ""
		dip, _, _ := net.SplitHostPort(ev.dst)
		if R.ipnet.Contains(net.ParseIP(dip)) {
			switch n := R.nics[dip].(type) {
			case nil:
				st.why = "unreachable address inside " + R.spec.CIDR
				r.Count("ended_unreachable", 1)
			case *hostM:
				// host demultiplexing
				var tgt *sockM
				_, dport, _ := net.SplitHostPort(ev.dst)
				for _, s := range n.socks {
					if fmt.Sprint(s.port) == dport && (s.ip == "0.0.0.0" || s.ip == dip) && s.openIn(st.phase) {
						tgt = s
					}
				}
				switch {
				case tgt == nil:
					st.why = "no socket bound to " + ev.dst
					r.Count("ended_unbound", 1)
				case tgt.connected != "" && tgt.connected != ev.src:
					st.why = "connected socket discards other sources"
					r.Count("ended_discarded_by_connected_socket", 1)
				default:
					if !tgt.isFlush {
						expected[tgt] = append(expected[tgt], delivery{ev.seq, ev.src, ev.hash, ev.n, ev.tag})
						r.Count("must_deliver", 1)
					}
					st.why = "delivered"
				}
			case *routerM:
				// inbound at child router n
				C := n
				if C.spec.NAT.Mode == 1 {
					loc, ok := C.spec.NAT.Pairs[dip]
					if !ok {
						st.why = "1:1 NAT: unpaired address"
						st.expect, st.must, st.router = "hop", 0, C
						r.Count("must_drop", 1)
					} else {
						_, dport, _ := net.SplitHostPort(ev.dst)
						st.expect, st.must, st.router, st.src, st.dst, st.why = "hop", 2, C, ev.src, loc+":"+dport, "1:1 NAT inbound"
						r.Count("nat_1to1_inbound", 1)
					}
				} else {
					m := C.in[ev.dst]
					fk := depKey(C.spec.NAT.FilB, ev.src)
					switch {
					case m == nil:
						st.expect, st.must, st.router = "hop", -1, C
						st.inSrc, st.inDst = ev.src, ev.dst
						st.why = "no NAT mapping owns " + ev.dst
						r.Count("nat_inbound_no_mapping", 1)
					default:
						pp, ok := m.perms[fk]
						switch {
						case !ok:
							st.expect, st.must, st.router = "hop", -2, C
							st.inSrc, st.inDst = ev.src, ev.dst
							r.Count("nat_inbound_no_permission", 1)
							st.why = fmt.Sprintf("mapping %s of %s has no permission for %s under filtering behaviour %d", m.ext, m.owner, ev.src, C.spec.NAT.FilB)
						case m.created < st.phase && pp < st.phase:
							st.expect, st.must, st.router, st.src, st.dst = "hop", 2, C, ev.src, m.owner
							st.why = "NAT inbound permitted since an earlier phase"
							r.Count("nat_inbound_must", 1)
						default:
							st.expect, st.must, st.router, st.src, st.dst = "hop", 1, C, ev.src, m.owner
							st.why = "NAT inbound permitted in this same phase (race)"
							r.Count("nat_inbound_may", 1)
						}
					}
				}
			}
		} else if R.parent == nil {
			st.why = "no route at the root router"
			r.Count("ended_no_route", 1)
		} else {
			// outbound through R's NAT
			if R.spec.NAT.Mode == 1 {
				sip, sport, _ := net.SplitHostPort(ev.src)
				wan := ""
				for wip, loc := range R.spec.NAT.Pairs {
					if loc == sip {
						wan = wip
					}
				}
				if wan == "" {
					st.why = "1:1 NAT: source has no pair"
					st.expect, st.must, st.router = "hop", 0, R.parent
					r.Count("must_drop", 1)
				} else {
					st.expect, st.must, st.router, st.src, st.dst, st.why = "hop", 2, R.parent, wan+":"+sport, ev.dst, "1:1 NAT outbound"
					r.Count("nat_1to1_outbound", 1)
				}
			} else {
				key := ev.src + "|" + depKey(R.spec.NAT.MapB, ev.dst)
				m := R.out[key]
				fk := depKey(R.spec.NAT.FilB, ev.dst)
				if m == nil {
					m = &mapM{owner: ev.src, created: st.phase, perms: map[string]int{}}
					R.out[key] = m
					st.learn, st.learnR = m, R
					r.Count("nat_mappings_created", 1)
				} else if m.ext == "" {
					// created by an earlier datagram whose next hop has not been seen yet: learn here as well
					st.learn, st.learnR = m, R
				}
				if _, ok := m.perms[fk]; !ok {
					m.perms[fk] = st.phase
				}
				st.expect, st.must, st.router, st.src, st.dst, st.why = "hop", 2, R.parent, m.ext, ev.dst, "NAPT outbound"
				r.Count("napt_outbound", 1)
				r.DistinctKey(fmt.Sprintf("napt depth=%d map=%d fil=%d", R.depth, R.spec.NAT.MapB, R.spec.NAT.FilB))
			}
		}
	}
	// resolve deferred must-drop decisions (must == -1: no mapping at that time; -2: no permission at that time)
	for tag, st := range states {
		if st.expect != "" && st.must == 2 {
			return &viol{"vnet:lost", fmt.Sprintf("chunk tag=%s (%s, phase %d) never reached router %s although the rules admit it (%s) and every queue was far below capacity; path so far %s", tag, st.from, st.phase, st.router.spec.Name, st.why, shapes[tag])}
		}
		if st.expect != "" && st.must <= 0 {
			r.Count("must_drop_held", 1)
		}
		if st.expect != "" && st.must == 1 {
			r.Count("may_deliver_not_delivered", 1)
		}
	}
	for _, q := range w.sends {
		if len(q) > 0 {
			sd := q[0]
			return &viol{"vnet:lost-before-first-hop", fmt.Sprintf("datagram written by socket %d to %s (phase %d) never entered its router", sd.sock.idx, sd.dst, sd.phase)}
		}
	}
	// per socket: RECV order == order of final hops
	for _, s := range w.socks {
		s.mu.Lock()
		got := append([]recvEv{}, s.recv...)
		s.mu.Unlock()
		var routed []recvEv
		for _, g := range got {
			if strings.HasPrefix(g.src, "127.") {
				continue
			}
			routed = append(routed, g)
		}
		exp := expected[s]
		for k := 0; k < len(exp) || k < len(routed); k++ {
			if k >= len(exp) {
				return &viol{"vnet:extra-receive", fmt.Sprintf("socket %d (%s:%d) received a datagram from %s (%d bytes) that the routers never delivered to it (duplicate or invented)", s.idx, s.ip, s.port, routed[k].src, len(routed[k].payload))}
			}
			if k >= len(routed) {
				return &viol{"vnet:not-received", fmt.Sprintf("socket %d (%s:%d): router delivered %d datagrams to it, only %d were read (tag %s from %s missing)", s.idx, s.ip, s.port, len(exp), len(routed), exp[k].tag, exp[k].src)}
			}
			if routed[k].src != exp[k].src || vn.Hash(routed[k].payload) != exp[k].hash || len(routed[k].payload) != exp[k].n {
				return &viol{"vnet:receive-mismatch", fmt.Sprintf("socket %d (%s:%d) read datagram #%d from %s (%d bytes) but the router delivered tag %s from %s (%d bytes) at that position: reordered, modified or wrong source", s.idx, s.ip, s.port, k, routed[k].src, len(routed[k].payload), exp[k].tag, exp[k].src, exp[k].n)}
			}
		}
		r.Count("datagrams_received", int64(len(routed)))
	}
	// loopback: per (socket, source) the received sequence equals the sent one
	type lk struct {
		s   *sockM
		src string
	}
	lexp := map[lk][]*sendEv{}
	for _, sd := range w.allSend {
		da, _ := net.ResolveUDPAddr("udp", sd.dst)
		if da == nil || !da.IP.IsLoopback() {
			continue
		}
		var tgt *sockM
		for _, s := range sd.sock.host.socks {
			if s.port == da.Port && (s.ip == "0.0.0.0" || s.ip == da.IP.String()) && s.openIn(sd.phase) {
				tgt = s
			}
		}
		if tgt == nil || tgt.connected != "" && tgt.connected != sd.src {
			continue
		}
		lexp[lk{tgt, sd.src}] = append(lexp[lk{tgt, sd.src}], sd)
	}
	for _, s := range w.socks {
		s.mu.Lock()
		got := append([]recvEv{}, s.recv...)
		s.mu.Unlock()
		per := map[string][]recvEv{}
		for _, g := range got {
			if strings.HasPrefix(g.src, "127.") {
				per[g.src] = append(per[g.src], g)
			}
		}
		for src, gs := range per {
			ex := lexp[lk{s, src}]
			if len(gs) != len(ex) {
				return &viol{"vnet:loopback-count", fmt.Sprintf("socket %d received %d loopback datagrams from %s, %d were written to it", s.idx, len(gs), src, len(ex))}
			}
			for k := range gs {
				if vn.Hash(gs[k].payload) != ex[k].hash {
					return &viol{"vnet:loopback-mismatch", fmt.Sprintf("socket %d loopback datagram #%d from %s differs from what was written", s.idx, k, src)}
				}
			}
			r.Count("loopback_received", int64(len(gs)))
			delete(lexp, lk{s, src})
		}
	}
	for k, ex := range lexp {
		if len(ex) > 0 {
			return &viol{"vnet:loopback-lost", fmt.Sprintf("socket %d never received %d loopback datagrams written by %s", k.s.idx, len(ex), k.src)}
		}
	}
	for _, sh := range shapes {
		r.DistinctKey("path " + sh)
	}
	return nil
}

// ---------------- generator ----------------

func genCase(rng *rand.Rand) *tcase {
	c := &tcase{Seed: rng.Int63(), Replies: true}
	c.Routers = append(c.Routers, routerSpec{Name: "root", CIDR: "1.2.3.0/24", Parent: -1})
	nLan := rng.Intn(5)
	cidrs := []string{"10.%d.0.0/16", "172.16.%d.0/24", "192.168.%d.0/24"}
	depthOf := []int{0}
	usedWan := map[string]bool{}
	var hairpin []int // indices of NAPT routers (candidates for the Hairpinning option, drawn at the end)
	for i := 0; i < nLan; i++ {
		// parent: any router of depth < 3
		var cands []int
		for j, d := range depthOf {
			if d < 3 {
				cands = append(cands, j)
			}
		}
		p := cands[rng.Intn(len(cands))]
		d := depthOf[p] + 1
		rs := routerSpec{Name: fmt.Sprintf("lan%d", i+1), CIDR: fmt.Sprintf(cidrs[d-1], i+1), Parent: p}
		_, pnet, _ := net.ParseCIDR(c.Routers[p].CIDR)
		base := pnet.IP.To4()
		mkWan := func() string {
			for {
				ip := fmt.Sprintf("%d.%d.%d.%d", base[0], base[1], base[2], 100+rng.Intn(100))
				if !usedWan[ip] {
					usedWan[ip] = true
					return ip
				}
			}
		}
		if rng.Intn(4) == 0 {
			rs.NAT.Mode = 1
			rs.NAT.Pairs = map[string]string{}
			k := 1 + rng.Intn(3)
			_, lnet, _ := net.ParseCIDR(rs.CIDR)
			lb := lnet.IP.To4()
			for j := 0; j < k; j++ {
				wip := mkWan()
				rs.WANs = append(rs.WANs, wip)
				rs.NAT.Pairs[wip] = fmt.Sprintf("%d.%d.%d.%d", lb[0], lb[1], lb[2], 50+j)
			}
		} else {
			rs.NAT.MapB, rs.NAT.FilB = rng.Intn(3), rng.Intn(3)
			hairpin = append(hairpin, len(c.Routers))
			if rng.Intn(2) == 0 {
				rs.WANs = []string{mkWan()}
				if rng.Intn(4) == 0 {
					rs.WANs = append(rs.WANs, mkWan())
				}
				if rng.Intn(3) == 0 {
					_, lnet, _ := net.ParseCIDR(rs.CIDR)
					lb := lnet.IP.To4()
					rs.NAT.IdlePairs = map[string]string{}
					for j, wip := range rs.WANs {
						rs.NAT.IdlePairs[wip] = fmt.Sprintf("%d.%d.%d.%d", lb[0], lb[1], lb[2], 1+j)
					}
				}
			}
		}
		if rng.Intn(5) == 0 {
			rs.DelayUs = []int{100, 1000}[rng.Intn(2)]
		}
		if rng.Intn(8) == 0 {
			rs.JitterUs = 100
		}
		c.Routers = append(c.Routers, rs)
		depthOf = append(depthOf, d)
	}
	// hosts: 1-3 on the root (public), 1-3 per LAN
	for ri, rs := range c.Routers {
		nh := 1 + rng.Intn(3)
		_, lnet, _ := net.ParseCIDR(rs.CIDR)
		lb := lnet.IP.To4()
		pairLocals := []string{}
		for _, loc := range rs.NAT.Pairs {
			pairLocals = append(pairLocals, loc)
		}
		sort.Strings(pairLocals)
		for h := 0; h < nh; h++ {
			hs := hostSpec{Router: ri}
			switch {
			case rs.NAT.Mode == 1 && h < len(pairLocals):
				hs.Statics = []string{pairLocals[h]}
			case rng.Intn(3) == 0:
				hs.Statics = []string{fmt.Sprintf("%d.%d.%d.%d", lb[0], lb[1], lb[2], 20+h)}
				if rng.Intn(3) == 0 {
					hs.Statics = append(hs.Statics, fmt.Sprintf("%d.%d.%d.%d", lb[0], lb[1], lb[2], 30+h))
				}
			}
			c.Hosts = append(c.Hosts, hs)
		}
	}
	// sockets: 1-3 per host
	for hi := range c.Hosts {
		ns := 1 + rng.Intn(2)
		for s := 0; s < ns; s++ {
			ss := sockSpec{Host: hi, Port: 4000 + s}
			switch rng.Intn(6) {
			case 0:
				ss.IP = "0.0.0.0"
			case 1:
				ss.IP = "#1"
			case 2:
				ss.Port = 0
			}
			c.Socks = append(c.Socks, ss)
		}
	}
	// a few connected sockets on LAN hosts towards public sockets
	var public []int
	for si, ss := range c.Socks {
		if c.Hosts[ss.Host].Router == 0 && ss.IP != "0.0.0.0" && ss.Port != 0 {
			public = append(public, si)
		}
	}
	if len(public) > 0 {
		for hi, hs := range c.Hosts {
			if hs.Router != 0 && rng.Intn(3) == 0 {
				c.Socks = append(c.Socks, sockSpec{Host: hi, Port: 4500, Connect: fmt.Sprintf("sock:%d", public[rng.Intn(len(public))])})
			}
		}
	}
	sizes := []int{0, 1, 2, 7, 8, 100, 1199, 1200, 1472, 1500}
	// phase 1: everybody sends to a mix of destinations
	var p1, p3 []sendSpec
	for si, ss := range c.Socks {
		if ss.Connect != "" {
			p1 = append(p1, sendSpec{Sock: si, Dst: ss.Connect, Size: sizes[rng.Intn(len(sizes))], Count: 1 + rng.Intn(20)})
			continue
		}
		nd := 1 + rng.Intn(4)
		for k := 0; k < nd; k++ {
			sp := sendSpec{Sock: si, Size: sizes[rng.Intn(len(sizes))], Count: 1 + rng.Intn(12)}
			switch rng.Intn(12) {
			case 0:
				sp.Dst = "1.2.3.250:4000" // unreachable inside the root subnet
			case 1:
				sp.Dst = "8.8.8.8:53" // no route
			case 2:
				sp.Dst = "127.0.0.1:4000" // loopback
			case 3:
				sp.Dst = fmt.Sprintf("sock:%d", rng.Intn(len(c.Socks))) // any socket's bound address, public or private
			case 4:
				sp.Dst = "1.2.3.150:49152" // possibly a NAT's address, never allocated port
			case 5:
				if len(public) > 0 {
					sp.Dst = fmt.Sprintf("sockport:%d:4999", public[rng.Intn(len(public))]) // unbound port on a public host
				}
			}
			if sp.Dst == "" {
				if len(public) == 0 {
					sp.Dst = fmt.Sprintf("sock:%d", rng.Intn(len(c.Socks)))
				} else {
					sp.Dst = fmt.Sprintf("sock:%d", public[rng.Intn(len(public))])
				}
			}
			p1 = append(p1, sp)
		}
	}
	// phase 3 (after the replies): public sockets probe the external addresses they have seen, plus strangers
	for _, pi := range public {
		for k := 0; k < 3; k++ {
			p3 = append(p3, sendSpec{Sock: pi, Dst: fmt.Sprintf("seen:%d", rng.Intn(1000)), Size: sizes[rng.Intn(len(sizes))], Count: 1 + rng.Intn(4)})
		}
	}
	// also in phase 3: every socket sends to the address under which two other sockets were seen from outside - for
	// sockets of one LAN that is an external address of their own NAT (through the parent and back, exactly once)
	for si, ss := range c.Socks {
		if ss.Connect != "" {
			continue
		}
		for k := 0; k < 2; k++ {
			p3 = append(p3, sendSpec{Sock: si, Dst: fmt.Sprintf("extof:%d", rng.Intn(len(c.Socks))), Size: 8 + rng.Intn(100), Count: 1 + rng.Intn(3)})
		}
	}
	for _, ri := range hairpin {
		if rng.Intn(3) == 0 {
			c.Routers[ri].NAT.Hairpin = true
		}
	}
	// phase 4: phase 1 again (mappings must be reused)
	c.Phases = [][]sendSpec{p1, nil, p3, p1}
	// a quarter of the cases: bounded router queues and a steady phase (exclusive with the handover phase)
	if rng.Intn(4) == 0 {
		c.QueueSize = 32 + rng.Intn(64)
		c.SteadyWindow = c.QueueSize/2 + 2 + rng.Intn(c.QueueSize/4)
		c.SteadyTotal = 3*c.QueueSize + rng.Intn(2*c.QueueSize)
		// queues must not run empty all the time: the root router delays, and so does every second other router
		for i := range c.Routers {
			if c.Routers[i].DelayUs == 0 && (i == 0 || rng.Intn(2) == 0) {
				c.Routers[i].DelayUs = 500 + rng.Intn(2500)
			}
		}
		return c
	}
	// half of the remaining cases: a fifth phase after some sockets were closed and some of those addresses bound again
	if rng.Intn(2) == 0 {
		for si, ss := range c.Socks {
			if ss.Connect == "" && rng.Intn(3) == 0 {
				c.Handover = append(c.Handover, handSpec{Sock: si, Rebind: rng.Intn(3) != 0})
			}
		}
		if len(c.Handover) > 0 {
			p5 := append(append([]sendSpec{}, p1...), p3...)
			c.Phases = append(c.Phases, p5)
		}
	}
	return c
}

// ---------------- run ----------------

func runCase(c *tcase, r *res.Result) (*viol, string) {
	atomic.StoreInt64(&evSeq, 0)
	w := &world{c: c, sends: map[string][]*sendEv{}}
	if err := w.build(); err != nil {
		if w.routers != nil && len(w.routers) > 0 {
			w.routers[0].r.Stop()
		}
		return nil, "inconclusive: build: " + err.Error()
	}
	defer func() {
		w.routers[0].r.Stop()
	}()
	if err := w.openSockets(); err != nil {
		return nil, "inconclusive: sockets: " + err.Error()
	}
	w.failedBinds(rand.New(rand.NewSource(c.Seed+5)), r)
	w.closeStale(r)
	var idc uint64
	resolve := func(s *sockM, d string, rng *rand.Rand) *net.UDPAddr {
		switch {
		case strings.HasPrefix(d, "sockport:"):
			var k, p int
			fmt.Sscanf(d, "sockport:%d:%d", &k, &p)
			return vn.UDP(w.socks[k].ip, p)
		case strings.HasPrefix(d, "sock:"):
			var k int
			fmt.Sscanf(d, "sock:%d", &k)
			t := w.socks[k%len(w.socks)]
			ip := t.ip
			if ip == "0.0.0.0" {
				ip = t.host.ips[0]
			}
			return vn.UDP(ip, t.port)
		case strings.HasPrefix(d, "extof:"):
			// the address under which socket k was seen by some other socket (its NAT's external address when it sits behind
			// one): for a sender in the same LAN this is a datagram to an external address of its own NAT
			var k int
			fmt.Sscanf(d, "extof:%d", &k)
			w.smu.Lock()
			ids := map[uint64]bool{}
			for _, sd := range w.allSend {
				if sd.sock.idx == k%len(w.socks) && sd.n >= 8 {
					ids[sd.id] = true
				}
			}
			w.smu.Unlock()
			for _, t := range w.socks {
				if t == s {
					continue
				}
				t.mu.Lock()
				for _, g := range t.recv {
					if len(g.payload) >= 8 && ids[vn.PayloadID(g.payload)] && !strings.HasPrefix(g.src, "127.") {
						a, _ := net.ResolveUDPAddr("udp", g.src)
						t.mu.Unlock()
						return a
					}
				}
				t.mu.Unlock()
			}
			return nil
		case strings.HasPrefix(d, "seen:"):
			// an external source address this socket has received from (unsolicited probe / reply target)
			s.mu.Lock()
			defer s.mu.Unlock()
			if len(s.recv) == 0 {
				return nil
			}
			var k int
			fmt.Sscanf(d, "seen:%d", &k)
			a, _ := net.ResolveUDPAddr("udp", s.recv[k%len(s.recv)].src)
			if a == nil {
				return nil
			}
			switch rng.Intn(4) {
			case 0:
				a.Port += 1 + rng.Intn(3) // a neighbouring, possibly never allocated port
			case 1:
				// the same port on another external address of the same NAT (never allocated there)
				for _, rm := range w.routers {
					if len(rm.wanIPs) > 1 {
						for i, ip := range rm.wanIPs {
							if ip == a.IP.String() {
								a.IP = net.ParseIP(rm.wanIPs[(i+1)%len(rm.wanIPs)]).To4()
								return a
							}
						}
					}
				}
			}
			return a
		}
		a, _ := net.ResolveUDPAddr("udp", d)
		return a
	}
	for pi, ph := range c.Phases {
		atomic.StoreInt32(&w.phase, int32(pi))
		atomic.StoreInt32(&w.phaseSent, 0)
		if pi == len(c.Phases)-1 && pi >= 4 && len(c.Handover) > 0 {
			if why := w.handover(pi, r); why != "" {
				return nil, why
			}
		}
		// group by socket: one sender goroutine per socket keeps per-socket order = write order
		bySock := map[int][]sendSpec{}
		if pi == 1 && c.Replies {
			// reply phase: every socket answers each distinct source it has seen so far
			for si, s := range w.socks {
				if s.connected != "" {
					continue
				}
				s.mu.Lock()
				seen := map[string]bool{}
				for _, g := range s.recv {
					if !seen[g.src] && !strings.HasPrefix(g.src, "127.") {
						seen[g.src] = true
						bySock[si] = append(bySock[si], sendSpec{Sock: si, Dst: g.src, Size: 8 + len(seen), Count: 2})
					}
				}
				s.mu.Unlock()
			}
		} else {
			for _, sp := range ph {
				bySock[sp.Sock] = append(bySock[sp.Sock], sp)
			}
		}
		var wg sync.WaitGroup
		for si, sps := range bySock {
			s := w.socks[si]
			if !s.openIn(pi) {
				if s.succ == nil {
					continue
				}
				s = s.succ
			}
			wg.Add(1)
			go func(s *sockM, sps []sendSpec, seed int64) {
				defer wg.Done()
				rng := rand.New(rand.NewSource(seed))
				for _, sp := range sps {
					dst := resolve(s, sp.Dst, rng)
					if dst == nil {
						continue
					}
					if dst.IP.IsLoopback() && !(s.ip == "0.0.0.0" || s.ip == "127.0.0.1") {
						continue
					}
					if s.connected != "" && dst.String() != s.connected {
						continue
					}
					for k := 0; k < sp.Count; k++ {
						if c.QueueSize > 0 && int(atomic.AddInt32(&w.phaseSent, 1)) > c.QueueSize-4 {
							r.Count("sends_skipped_to_stay_below_queue_capacity", 1)
							continue
						}
						w.send(s, dst, sp.Size, atomic.AddUint64(&idc, 1), pi)
						r.Count("datagrams_sent", 1)
					}
				}
			}(s, sps, c.Seed+int64(si)*31+int64(pi))
		}
		wg.Wait()
		if !w.flushAll() {
			// the marker is itself a datagram the rules admit: if every router goroutine is parked it is lost for good
			parked := true
			for k := 0; k < 3; k++ {
				n := 0
				for _, g := range gstate.Snapshot() {
					if g.Has("vnet.(*Router).Start.func1") {
						n++
						if !gstate.Blocked(g.State) {
							parked = false
						}
					}
				}
				if n == 0 {
					parked = false
				}
				time.Sleep(2 * time.Millisecond)
			}
			if parked {
				return &viol{"vnet:stuck", fmt.Sprintf("phase %d: a flush marker (a datagram a host sends to itself through its router) did not come back within 10s although every router goroutine is parked: a queued datagram is not being forwarded", pi)}, ""
			}
			return nil, "inconclusive: flush marker did not return"
		}
	}
	if c.QueueSize > 0 && c.SteadyTotal > 0 {
		if v, why := w.steady(len(c.Phases), &idc, r); v != nil || why != "" {
			return v, why
		}
	}
	// close the sockets: readers drain what is queued and stop
	time.Sleep(200 * time.Microsecond)
	for _, s := range w.socks {
		s.conn.Close()
	}
	for _, s := range w.socks {
		select {
		case <-s.done:
		case <-time.After(5 * time.Second):
			return nil, "inconclusive: reader did not stop"
		}
	}
	for _, rm := range w.routers {
		rm.flush.conn.Close()
	}
	// flush markers were registered as sends by nobody: register their first hops as legitimate
	var hops []hopEv
	for _, h := range w.hops {
		isFlush := false
		for _, rm := range w.routers {
			if h.dst == fmt.Sprintf("%s:%d", rm.flush.ip, rm.flush.port) && h.src == h.dst {
				isFlush = true
			}
		}
		if !isFlush {
			hops = append(hops, h)
		} else {
			r.Count("flush_markers", 1)
		}
	}
	w.hops = hops
	r.Count("hop_events", int64(len(hops)))
	return w.check(r), ""
}

func main() {
	prop := flag.String("prop", "C01", "")
	tier := flag.String("tier", "quick", "")
	seed := flag.Int64("seed", 1, "")
	shard := flag.Int("shard", 0, "")
	nshard := flag.Int("nshard", 1, "")
	out := flag.String("out", "", "")
	replay := flag.String("replay", "", "")
	flag.Parse()
	_ = nshard
	r := res.New(*prop)
	r.Rule = "generated topologies (root + 0-4 LAN routers nested to depth 3; NAPT with all 3x3 mapping/filtering behaviours or 1:1 NAT with 1-3 pairs; static/automatic/multiple WAN and host addresses; optional MinDelay/MaxJitter) and traffic plans in flushed phases (outbound to public sockets, LAN-local, loopback, unbound ports, unroutable and unreachable addresses, never-allocated NAT ports; replies to every observed source; unsolicited probes of observed and neighbouring external addresses; phase 1 again); events: SEND by the harness, HOP from a ChunkFilter on every router, RECV per socket; offline walk of every tag against routing + NAT rules with learned ports (must / may / must-drop), per-socket receive order == order of final hops; distinct = distinct hop-path shapes"
	r.Assumptions = []string{"NAT admission of an inbound datagram whose enabling outbound datagram is in the same traffic phase is left unconstrained (may)", "router and socket queues are far below capacity (<= 250 datagrams per socket per phase), mapping lifetime 30s >> run time", "sockets bound to 127.0.0.1 send only to loopback destinations"}
	one := func(c *tcase) {
		if *out != "" {
			if b, err := json.Marshal(c); err == nil {
				os.WriteFile(strings.TrimSuffix(*out, ".json")+".case", b, 0o644)
			}
		}
		r.Eval(1)
		v, inc := runCase(c, r)
		if inc != "" {
			r.Inconc(inc)
			return
		}
		if v != nil {
			r.Violate(v.key, v.desc, c)
		}
	}
	if *replay != "" {
		b, _ := os.ReadFile(*replay)
		var w struct {
			Witness tcase `json:"witness"`
		}
		if err := json.Unmarshal(b, &w); err != nil {
			fmt.Fprintln(os.Stderr, err)
			os.Exit(2)
		}
		for k := 0; k < 5 && r.NViol() == 0; k++ {
			one(&w.Witness)
		}
		r.Write(*out)
		return
	}
	installYield()
	r.Count("runs_in_mode_"+yieldMode, 1)
	n := 40
	if *tier == "thorough" {
		n = 120
	}
	rng := rand.New(rand.NewSource(*seed*1103 + int64(*shard)*67 + 41))
	for i := 0; i < n && r.NViol() < 3; i++ {
		c := genCase(rng)
		one(c)
		if i == 0 && *shard == 0 {
			s := *c
			s.Phases = [][]sendSpec{c.Phases[0][:min(4, len(c.Phases[0]))]}
			r.Sample(s)
		}
	}
	r.Write(*out)
}

func min(a, b int) int {
	if a < b {
		return a
	}
	return b
}
