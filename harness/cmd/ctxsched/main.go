// Command ctxsched: schedule exploration (flavour C) of the context-aware stream wrappers netctx.Conn and connctx (C17)
// over net.Pipe: the operation, its watcher goroutine, the cancellation and the peer are separate scheduler tasks.
package main

import (
	"context"
	"encoding/json"
	"errors"
	"flag"
	"fmt"
	"math/rand"
	"net"
	"os"
	"strings"
	"sync"
	"time"

	"github.com/pion/transport/v3/connctx"
	"github.com/pion/transport/v3/netctx"
	"verifharness/internal/gstate"
	"verifharness/internal/res"
	"verifharness/internal/sched"
)

type scen struct {
	Kind     string   `json:"kind"`      // netctx | connctx
	Dir      string   `json:"direction"` // read | write : which side of the wrapped end is exercised
	Chunk    int      `json:"peer_chunk"`
	Strategy string   `json:"strategy"`
	Ctx      string   `json:"context,omitempty"` // "", deadline, parent-deadline
	Seed     int64    `json:"seed"`
	Trace    []string `json:"trace,omitempty"`
	Prefix   []int    `json:"prefix,omitempty"`
}

type rw interface {
	ReadContext(context.Context, []byte) (int, error)
	WriteContext(context.Context, []byte) (int, error)
	Close() error
}

func isDeadlineish(err error) bool {
	var ne net.Error
	return errors.As(err, &ne) && ne.Timeout() || errors.Is(err, os.ErrDeadlineExceeded) || errors.Is(err, context.Canceled) || errors.Is(err, context.DeadlineExceeded)
}

type result struct {
	key, desc string
	trace     []string
	steps     int
	outcome   sched.Outcome
}

func runOne(sc *scen, st sched.Strategy, settle bool, hit map[int]bool) (rs result) {
	s := sched.New(st)
	s.Settle = settle
	s.MaxSteps = 600
	x, y := net.Pipe()
	var a rw
	if sc.Kind == "netctx" {
		netctx.VerifYield = s.Yield
		a = netctx.NewConn(x)
	} else {
		connctx.VerifYield = s.Yield
		a = connctx.New(x)
	}
	defer func() {
		netctx.VerifYield, connctx.VerifYield = nil, nil
	}()
	// the context of the first operation: plain, or with a deadline an hour away (on itself or on its parent) - it is ended
	// by cancel() in every case
	ctx1, cancel := context.WithCancel(context.Background())
	switch sc.Ctx {
	case "deadline":
		ctx1, cancel = context.WithTimeout(context.Background(), time.Hour)
	case "parent-deadline":
		parent, pc := context.WithTimeout(context.Background(), 2*time.Hour)
		defer pc()
		ctx1, cancel = context.WithCancel(parent)
	}
	var mu sync.Mutex
	var got, sent []byte // bytes received / reported written
	type opres struct {
		n   int
		err error
	}
	var ops []opres
	msg1, msg2 := []byte("hello-first-message"), []byte("world-second")
	var cancelDone, op1Done bool
	var pwg sync.WaitGroup
	// "-idle" variants: the peer neither writes nor reads, so only the cancellation can end the operation; no probe follows
	idle := strings.HasSuffix(sc.Dir, "-idle")
	dir := strings.TrimSuffix(sc.Dir, "-idle")
	switch sc.Dir {
	case "read-idle":
		s.Go("R", func() {
			buf := make([]byte, 64)
			n, err := a.ReadContext(ctx1, buf)
			mu.Lock()
			ops = append(ops, opres{n, err})
			op1Done = true
			mu.Unlock()
		})
	case "write-idle":
		s.Go("W", func() {
			n, err := a.WriteContext(ctx1, msg1)
			mu.Lock()
			ops = append(ops, opres{n, err})
			op1Done = true
			mu.Unlock()
		})
	case "read":
		s.Go("R", func() {
			buf := make([]byte, 64)
			n, err := a.ReadContext(ctx1, buf)
			mu.Lock()
			ops = append(ops, opres{n, err})
			got = append(got, buf[:n]...)
			op1Done = true
			mu.Unlock()
			// probe with a live context right after the possibly cancelled operation
			n, err = a.ReadContext(context.Background(), buf)
			mu.Lock()
			ops = append(ops, opres{n, err})
			got = append(got, buf[:n]...)
			mu.Unlock()
		})
		s.Go("P", func() {
			for _, m := range [][]byte{msg1, msg2} {
				n, _ := y.Write(m)
				mu.Lock()
				sent = append(sent, m[:n]...)
				mu.Unlock()
			}
		})
	case "write":
		s.Go("W", func() {
			n, err := a.WriteContext(ctx1, msg1)
			mu.Lock()
			ops = append(ops, opres{n, err})
			sent = append(sent, msg1[:n]...)
			op1Done = true
			mu.Unlock()
			n, err = a.WriteContext(context.Background(), msg2)
			mu.Lock()
			ops = append(ops, opres{n, err})
			sent = append(sent, msg2[:n]...)
			mu.Unlock()
		})
		pwg.Add(1)
		s.Go("P", func() {
			defer pwg.Done()
			buf := make([]byte, sc.Chunk)
			for {
				n, err := y.Read(buf)
				mu.Lock()
				got = append(got, buf[:n]...)
				mu.Unlock()
				if err != nil {
					return
				}
			}
		})
	}
	s.Go("X", func() {
		cancel()
		mu.Lock()
		cancelDone = true
		mu.Unlock()
	})
	out := s.Run(3 * time.Second)
	rs = result{trace: s.Trace(), steps: s.Steps(), outcome: out}
	for _, p := range s.PointsHit() {
		hit[p] = true
	}
	mu.Lock()
	cd, od := cancelDone, op1Done
	nops := len(ops)
	mu.Unlock()
	// promptness: at a quiescent point the cancelled operation must not still be parked inside the wrapper
	if out == sched.Quiescent && cd && !od {
		fn := map[string]string{"read": "ReadContext", "write": "WriteContext"}[dir]
		for _, t := range s.Pending() {
			if t.Name == "R" || t.Name == "W" {
				for _, g := range gstate.Snapshot() {
					if g.ID == t.GoID && gstate.Blocked(g.State) && g.Has(fn) {
						rs.key, rs.desc = "ctxsched:"+sc.Kind+":cancel-not-prompt", fmt.Sprintf("the context was cancelled and %s is still parked at a quiescent point (%s)", fn, g.State)
					}
				}
			}
		}
	}
	s.Stop()
	netctx.VerifYield, connctx.VerifYield = nil, nil
	// let everything finish (free-running): close the plain end after the probe had its chance
	done := make(chan struct{})
	go func() {
		for i := 0; i < 2000; i++ {
			mu.Lock()
			n := len(ops)
			mu.Unlock()
			if n >= 2 || idle && n >= 1 {
				break
			}
			time.Sleep(100 * time.Microsecond)
		}
		close(done)
	}()
	<-done
	y.Close()
	a.Close()
	pd := make(chan struct{})
	go func() { pwg.Wait(); close(pd) }()
	select {
	case <-pd:
	case <-time.After(2 * time.Second):
	}
	time.Sleep(100 * time.Microsecond)
	mu.Lock()
	defer mu.Unlock()
	_ = nops
	if rs.key != "" || out == sched.TimedOut {
		return rs
	}
	if idle {
		if len(ops) < 1 {
			rs.desc = "inconclusive: the cancelled operation did not return"
			return rs
		}
		if e := ops[0].err; !errors.Is(e, context.Canceled) || ops[0].n != 0 {
			rs.key, rs.desc = "ctxsched:"+sc.Kind+":cancel-result", fmt.Sprintf("%s with an idle peer and a cancelled context returned n=%d err=%v, expected 0 bytes and the context's error", dir, ops[0].n, e)
		}
		return rs
	}
	if len(ops) < 2 {
		rs.desc = "inconclusive: the live-context probe did not return"
		return rs
	}
	// the first operation: a context error must come with zero bytes
	if e := ops[0].err; e != nil && (errors.Is(e, context.Canceled)) && ops[0].n != 0 {
		// allowed by the wrapper? the statement: the context's error is reported only when no bytes were transferred
		rs.key, rs.desc = "ctxsched:"+sc.Kind+":ctx-error-with-bytes", fmt.Sprintf("operation returned %d bytes together with the context's error", ops[0].n)
		return rs
	}
	// the probe ran with a live context: any deadline / context error is a leftover deadline
	if e := ops[1].err; e != nil && isDeadlineish(e) {
		rs.key, rs.desc = "ctxsched:"+sc.Kind+":leftover-deadline-"+sc.Dir, fmt.Sprintf("the operation after a cancelled one, with a live context, failed with %v (first operation: n=%d err=%v)", e, ops[0].n, ops[0].err)
		return rs
	}
	// conservation: what was received is a prefix-consistent image of what was reported written
	m := len(got)
	if len(sent) < m {
		m = len(sent)
	}
	if string(got[:m]) != string(sent[:m]) || (sc.Dir == "read" && len(got) > len(sent)) {
		rs.key, rs.desc = "ctxsched:"+sc.Kind+":stream-mismatch", fmt.Sprintf("bytes received %q differ from bytes reported written %q", got, sent)
		return rs
	}
	if sc.Dir == "write" && len(got) != len(sent) {
		rs.key, rs.desc = "ctxsched:"+sc.Kind+":stream-mismatch", fmt.Sprintf("peer received %d bytes, %d were reported written (%q vs %q)", len(got), len(sent), got, sent)
		return rs
	}
	return rs
}

func strat(sc *scen) sched.Strategy {
	rng := rand.New(rand.NewSource(sc.Seed))
	switch {
	case sc.Strategy == "random":
		return &sched.Random{Rng: rng}
	case strings.HasPrefix(sc.Strategy, "pct"):
		return sched.NewPCT(rng, int(sc.Strategy[3]-'0'), 40)
	}
	return &sched.DFS{Prefix: sc.Prefix, Bound: 2}
}

func main() {
	tier := flag.String("tier", "quick", "")
	seed := flag.Int64("seed", 1, "")
	shard := flag.Int("shard", 0, "")
	nshard := flag.Int("nshard", 1, "")
	out := flag.String("out", "", "")
	replay := flag.String("replay", "", "")
	flag.Parse()
	_ = nshard
	r := res.New("C17")
	r.Rule = "schedule exploration of one context-aware operation on netctx.Conn / connctx over net.Pipe (read or write side), its watcher goroutine, the cancel() call and the peer as separate tasks of a cooperative scheduler (yield points before every lock/channel/select/WaitGroup operation of netctx/conn.go and connctx.go), followed by a live-context probe operation; variants with an idle peer (nothing but the cancellation can end the operation; it must return 0 bytes and the context's error); strategies DFS (preemption bound 2), PCT d=2..4, random; oracle: cancelled operation not parked at a quiescent point, context error only with zero bytes, the probe never fails with a deadline/context error, bytes received == bytes reported written; distinct = distinct schedules"
	r.Assumptions = []string{"net.Pipe is not instrumented: its blocking is observed through goroutine states", "a task released from a real blocking operation runs freely up to its next yield point"}
	hit := map[int]bool{}
	seen := map[string]int{}
	one := func(sc *scen, st sched.Strategy, settle bool) result {
		rs := runOne(sc, st, settle, hit)
		r.Eval(1)
		r.Count("schedule_steps", int64(rs.steps))
		r.DistinctKey(sc.Kind + sc.Dir + strings.Join(rs.trace, " "))
		switch rs.outcome {
		case sched.Quiescent:
			r.Count("quiescent_points_inspected", 1)
		case sched.AllDone:
			r.Count("runs_all_done", 1)
		}
		if rs.key == "" && rs.desc != "" {
			r.Inconc(rs.desc)
		}
		if rs.key != "" {
			seen[rs.key]++
			if seen[rs.key] <= 2 {
				w := *sc
				w.Trace = rs.trace
				r.Violate(rs.key, rs.desc, w)
			}
		} else {
			r.Count("probes_checked", 1)
		}
		return rs
	}
	if *replay != "" {
		b, _ := os.ReadFile(*replay)
		var w struct {
			Witness scen `json:"witness"`
		}
		if err := json.Unmarshal(b, &w); err != nil {
			fmt.Fprintln(os.Stderr, err)
			os.Exit(2)
		}
		sc := w.Witness
		for k := 0; k < 20 && r.NViol() == 0; k++ {
			one(&sc, &sched.Forced{Want: sc.Trace}, true)
		}
		for k := 0; k < 400 && r.NViol() == 0; k++ {
			s2 := sc
			s2.Seed = sc.Seed + int64(k)
			if s2.Strategy == "dfs" {
				s2.Strategy = "pct3"
			}
			one(&s2, strat(&s2), false)
		}
		r.Write(*out)
		return
	}
	kinds := []string{"netctx", "connctx"}
	dirs := []string{"read", "write"}
	dsc := scen{Kind: kinds[*shard%2], Dir: dirs[(*shard/2)%2], Chunk: 7, Strategy: "dfs"}
	budget := 300
	n := 600
	if *tier == "thorough" {
		budget, n = 6000, 8000
	}
	for _, suffix := range []string{"", "-idle"} {
		var prefix []int
		for k := 0; k < budget; k++ {
			d := &sched.DFS{Prefix: prefix, Bound: 2}
			c := dsc
			c.Dir += suffix
			if suffix != "" {
				c.Ctx = "deadline"
			}
			c.Prefix = prefix
			rs := one(&c, d, true)
			r.Count("dfs_schedules", 1)
			if rs.key != "" {
				break
			}
			prefix = d.Next()
			if prefix == nil {
				r.Count("dfs_frontiers_exhausted", 1)
				break
			}
		}
	}
	dirs = []string{"read", "write", "read-idle", "write-idle"}
	rng := rand.New(rand.NewSource(*seed*1201 + int64(*shard)*71 + 43))
	for i := 0; i < n; i++ {
		sc := &scen{Kind: kinds[rng.Intn(2)], Dir: dirs[rng.Intn(len(dirs))], Chunk: []int{3, 7, 64}[rng.Intn(3)], Seed: rng.Int63(), Ctx: []string{"", "", "deadline", "parent-deadline"}[rng.Intn(4)]}
		if rng.Intn(5) == 0 {
			sc.Strategy = "random"
		} else {
			sc.Strategy = fmt.Sprintf("pct%d", 2+rng.Intn(3))
		}
		one(sc, strat(sc), false)
		if i == 0 && *shard == 0 {
			r.Sample(sc)
		}
	}
	r.Max("max_yield_points_reached", int64(len(hit)))
	r.Write(*out)
}
