// Command races (engine E4): dedicated concurrent client programs for the race detector (C19). One workload per child
// process (-w), reports are read by the driver from GORACE log_path files, not from exit codes.
package main

import (
	"context"
	"flag"
	"fmt"
	"math/rand"
	"net"
	"os"
	"sync"
	"sync/atomic"
	"time"

	"github.com/pion/transport/v3/deadline"
	"github.com/pion/transport/v3/dpipe"
	"github.com/pion/transport/v3/netctx"
	"github.com/pion/transport/v3/packetio"
	"github.com/pion/transport/v3/test"
	"github.com/pion/transport/v3/udp"
	"github.com/pion/transport/v3/vnet"
	"verifharness/internal/res"
	"verifharness/internal/vn"
)

var ops int64

func op() { atomic.AddInt64(&ops, 1) }

func par(n int, f func(i int)) {
	var wg sync.WaitGroup
	for i := 0; i < n; i++ {
		wg.Add(1)
		go func(i int) {
			defer wg.Done()
			f(i)
		}(i)
	}
	wg.Wait()
}

// a. building independent virtual networks in parallel
func wBuild(iters int) {
	par(8, func(g int) {
		for k := 0; k < iters; k++ {
			rt, err := vnet.NewRouter(&vnet.RouterConfig{CIDR: "10.0.0.0/24", LoggerFactory: vn.Silent()})
			if err != nil {
				panic(err)
			}
			lan, _ := vnet.NewRouter(&vnet.RouterConfig{CIDR: "192.168.0.0/24", LoggerFactory: vn.Silent()})
			n1, _ := vnet.NewNet(&vnet.NetConfig{})
			n2, _ := vnet.NewNet(&vnet.NetConfig{StaticIPs: []string{"192.168.0.7"}})
			rt.AddNet(n1)
			rt.AddRouter(lan)
			lan.AddNet(n2)
			rt.Start()
			c1, _ := n1.ListenUDP("udp", &net.UDPAddr{IP: net.IPv4zero, Port: 4000})
			c2, _ := n2.ListenUDP("udp", &net.UDPAddr{IP: net.IPv4zero, Port: 4000})
			ifc, _ := n1.InterfaceByName("eth0")
			addrs, _ := ifc.Addrs()
			dst := &net.UDPAddr{IP: addrs[0].(*net.IPNet).IP, Port: 4000}
			c2.WriteTo([]byte("x"), dst)
			buf := make([]byte, 10)
			c1.SetReadDeadline(time.Now().Add(200 * time.Millisecond))
			c1.ReadFrom(buf)
			c1.Close()
			c2.Close()
			rt.Stop()
			op()
		}
	})
}

func twoHosts() (*vnet.Router, *vnet.Net, *vnet.Net) {
	rt, _ := vnet.NewRouter(&vnet.RouterConfig{CIDR: "10.0.0.0/24", LoggerFactory: vn.Silent()})
	a, _ := vnet.NewNet(&vnet.NetConfig{StaticIPs: []string{"10.0.0.1"}})
	b, _ := vnet.NewNet(&vnet.NetConfig{StaticIPs: []string{"10.0.0.2"}})
	rt.AddNet(a)
	rt.AddNet(b)
	rt.Start()
	return rt, a, b
}

// b. one vnet socket used from several goroutines
func wSocket(iters int) {
	rt, a, b := twoHosts()
	defer rt.Stop()
	for k := 0; k < iters/50+1; k++ {
		// socket flavours by round: bound to the host's address, bound to the wildcard address (the source address is
		// worked out per write), and a connected socket on one side
		var ca, cb net.PacketConn
		var err1, err2 error
		switch k % 3 {
		case 0:
			ca, err1 = a.ListenUDP("udp", vn.UDP("10.0.0.1", 5000))
			cb, err2 = b.ListenUDP("udp", vn.UDP("10.0.0.2", 5000))
		case 1:
			ca, err1 = a.ListenUDP("udp", vn.UDP("0.0.0.0", 5000))
			cb, err2 = b.ListenUDP("udp", vn.UDP("0.0.0.0", 5000))
		default:
			ca, err1 = a.ListenUDP("udp", vn.UDP("0.0.0.0", 5000))
			var cc net.Conn
			cc, err2 = b.DialUDP("udp", vn.UDP("10.0.0.2", 5000), vn.UDP("10.0.0.1", 5000))
			if err2 == nil {
				cb = cc.(net.PacketConn)
			}
		}
		if err1 != nil || err2 != nil {
			panic(fmt.Sprint("races harness: bind failed: ", err1, err2))
		}
		var stop int32
		var wg sync.WaitGroup
		for g := 0; g < 3; g++ {
			wg.Add(1)
			go func() {
				defer wg.Done()
				for atomic.LoadInt32(&stop) == 0 {
					cb.WriteTo([]byte("hello"), vn.UDP("10.0.0.1", 5000))
					ca.WriteTo([]byte("world"), vn.UDP("10.0.0.2", 5000))
					if k%3 != 0 {
						ca.WriteTo([]byte("self"), vn.UDP("127.0.0.1", 5000)) // a wildcard socket reaches itself over loopback
					}
					op()
				}
			}()
		}
		for g := 0; g < 3; g++ {
			wg.Add(1)
			go func() {
				defer wg.Done()
				buf := make([]byte, 100)
				for atomic.LoadInt32(&stop) == 0 {
					ca.ReadFrom(buf)
					_ = ca.LocalAddr()
					if ra, ok := cb.(interface{ RemoteAddr() net.Addr }); ok {
						_ = ra.RemoteAddr()
					}
					op()
				}
			}()
		}
		wg.Add(1)
		go func() {
			defer wg.Done()
			for atomic.LoadInt32(&stop) == 0 {
				ca.SetReadDeadline(time.Now().Add(time.Duration(rand.Intn(300)) * time.Microsecond))
				cb.SetReadDeadline(time.Time{})
				op()
			}
		}()
		time.Sleep(15 * time.Millisecond)
		closed := make(chan struct{})
		go func() { ca.Close(); close(closed) }()
		cb.Close()
		atomic.StoreInt32(&stop, 1)
		ca.SetReadDeadline(time.Now().Add(-time.Second))
		wg.Wait()
		<-closed // the address must be free again before the next round binds it
	}
}

// c. bind/close storm on one Net
func wBind(iters int) {
	rt, a, _ := twoHosts()
	defer rt.Stop()
	par(6, func(g int) {
		for k := 0; k < iters; k++ {
			var c net.PacketConn
			var err error
			switch k % 3 {
			case 0:
				c, err = a.ListenUDP("udp", &net.UDPAddr{IP: net.IPv4zero})
			case 1:
				c, err = a.ListenPacket("udp", "10.0.0.1:0")
			default:
				var cc net.Conn
				cc, err = a.Dial("udp", "10.0.0.2:4000")
				if err == nil {
					c = cc.(net.PacketConn)
				}
			}
			if err == nil {
				c.WriteTo([]byte("x"), vn.UDP("10.0.0.2", 4000))
				c.Close()
			}
			a.Interfaces()
			op()
		}
	})
}

// d. token bucket filter reconfigured under traffic
func wTBF(iters int) {
	var got int64
	sink := &vnet.VerifNIC{OnChunk: func(vnet.Chunk) { atomic.AddInt64(&got, 1) }}
	f, _ := vnet.NewTokenBucketFilter(sink, vnet.TBFRate(10_000_000), vnet.TBFMaxBurst(20000))
	var stop int32
	var wg sync.WaitGroup
	wg.Add(2)
	go func() {
		defer wg.Done()
		for atomic.LoadInt32(&stop) == 0 {
			f.Set(vnet.TBFRate(1_000_000 + rand.Intn(50_000_000)))
			f.Set(vnet.TBFMaxBurst(2000 + rand.Intn(50000)))
			op()
		}
	}()
	go func() {
		defer wg.Done()
		for i := 0; i < iters*20; i++ {
			vnet.VerifInject(f, vnet.VerifNewChunkUDP(vn.UDP("10.0.0.1", 1), vn.UDP("10.0.0.2", 2), make([]byte, 100+i%1000)))
			op()
		}
		atomic.StoreInt32(&stop, 1)
	}()
	wg.Wait()
	f.Close()
}

// e. chunk filters added while a router forwards; delay / loss filters in the path
func wFilters(iters int) {
	rt, a, b := twoHosts()
	defer rt.Stop()
	ca, _ := a.ListenUDP("udp", vn.UDP("10.0.0.1", 5000))
	cb, _ := b.ListenUDP("udp", vn.UDP("10.0.0.2", 5000))
	var stop int32
	var wg sync.WaitGroup
	wg.Add(3)
	go func() {
		defer wg.Done()
		for i := 0; i < iters*10; i++ {
			ca.WriteTo([]byte("data"), vn.UDP("10.0.0.2", 5000))
			op()
		}
		atomic.StoreInt32(&stop, 1)
		cb.Close()
	}()
	go func() {
		defer wg.Done()
		buf := make([]byte, 100)
		for {
			if _, _, err := cb.ReadFrom(buf); err != nil {
				return
			}
		}
	}()
	go func() {
		defer wg.Done()
		for atomic.LoadInt32(&stop) == 0 {
			var n int64
			rt.AddChunkFilter(func(vnet.Chunk) bool { atomic.AddInt64(&n, 1); return true })
			time.Sleep(200 * time.Microsecond)
			op()
		}
	}()
	wg.Wait()
	ca.Close()
	// delay filter used from several injecting goroutines
	sink := &vnet.VerifNIC{OnChunk: func(vnet.Chunk) {}}
	df, _ := vnet.NewDelayFilter(sink, 50*time.Microsecond)
	ctx, cancel := context.WithCancel(context.Background())
	go df.Run(ctx)
	par(3, func(g int) {
		for i := 0; i < iters; i++ {
			vnet.VerifInject(df, vnet.VerifNewChunkUDP(vn.UDP("10.0.0.1", 1), vn.UDP("10.0.0.2", 2), []byte("x")))
			op()
		}
	})
	time.Sleep(2 * time.Millisecond)
	cancel()
	lf, _ := vnet.NewLossFilter(sink, 30)
	par(3, func(g int) {
		for i := 0; i < iters*5; i++ {
			vnet.VerifInject(lf, vnet.VerifNewChunkUDP(vn.UDP("10.0.0.1", 1), vn.UDP("10.0.0.2", 2), []byte("x")))
			op()
		}
	})
}

// f. packet buffer: every method from its own goroutine
func wBuffer(iters int) {
	for k := 0; k < iters/100+1; k++ {
		b := packetio.NewBuffer()
		var stop int32
		var wg sync.WaitGroup
		fs := []func(){
			func() { b.Write(make([]byte, 1+rand.Intn(3000))) },
			func() { b.Write(make([]byte, 10)) },
			func() { p := make([]byte, 4000); b.Read(p) },
			func() { p := make([]byte, 5); b.Read(p) },
			func() { b.Count(); b.Size() },
			func() { b.SetLimitCount(rand.Intn(50)); b.SetLimitSize(rand.Intn(100000)) },
			func() { b.SetReadDeadline(time.Now().Add(time.Duration(rand.Intn(200)) * time.Microsecond)) },
			func() { b.SetReadDeadline(time.Time{}) },
		}
		for _, f := range fs {
			f := f
			wg.Add(1)
			go func() {
				defer wg.Done()
				for atomic.LoadInt32(&stop) == 0 {
					f()
					op()
				}
			}()
		}
		time.Sleep(10 * time.Millisecond)
		b.Close()
		atomic.StoreInt32(&stop, 1)
		b.SetReadDeadline(time.Now().Add(-time.Second))
		wg.Wait()
	}
}

// g. deadline against expiring real timers
func wDeadline(iters int) {
	d := deadline.New()
	var stop int32
	var wg sync.WaitGroup
	for g := 0; g < 3; g++ {
		wg.Add(1)
		go func(g int) {
			defer wg.Done()
			for atomic.LoadInt32(&stop) == 0 {
				switch rand.Intn(4) {
				case 0:
					d.Set(time.Time{})
				case 1:
					d.Set(time.Now().Add(-time.Second))
				default:
					d.Set(time.Now().Add(time.Duration(rand.Intn(150)) * time.Microsecond))
				}
				op()
			}
		}(g)
	}
	for g := 0; g < 3; g++ {
		wg.Add(1)
		go func() {
			defer wg.Done()
			for atomic.LoadInt32(&stop) == 0 {
				select {
				case <-d.Done():
				default:
				}
				_ = d.Err()
				d.Deadline()
				op()
			}
		}()
	}
	time.Sleep(time.Duration(iters) * 100 * time.Microsecond)
	atomic.StoreInt32(&stop, 1)
	wg.Wait()
}

// h. dpipe, both ends, deadlines, close
func wDpipe(iters int) {
	for k := 0; k < iters/100+1; k++ {
		a, b := dpipe.Pipe()
		var stop int32
		var wg sync.WaitGroup
		for _, e := range []net.Conn{a, b} {
			e := e
			wg.Add(3)
			go func() {
				defer wg.Done()
				for atomic.LoadInt32(&stop) == 0 {
					e.Write(make([]byte, 1+rand.Intn(100)))
					op()
				}
			}()
			go func() {
				defer wg.Done()
				p := make([]byte, 200)
				for atomic.LoadInt32(&stop) == 0 {
					e.Read(p)
					op()
				}
			}()
			go func() {
				defer wg.Done()
				for atomic.LoadInt32(&stop) == 0 {
					e.SetReadDeadline(time.Now().Add(time.Duration(rand.Intn(200)) * time.Microsecond))
					e.SetWriteDeadline(time.Now().Add(time.Duration(rand.Intn(200)) * time.Microsecond))
					e.SetDeadline(time.Time{})
					op()
				}
			}()
		}
		time.Sleep(8 * time.Millisecond)
		atomic.StoreInt32(&stop, 1)
		a.Close()
		b.Close()
		wg.Wait()
	}
}

// i. UDP listener: Accept / Close / connection I/O, batch mode on and off
func wListener(iters int) {
	for k := 0; k < iters/100+1; k++ {
		lc := udp.ListenConfig{}
		if k%2 == 1 {
			lc.Batch = udp.BatchIOConfig{Enable: true, ReadBatchSize: 4, WriteBatchSize: 3, WriteBatchInterval: time.Millisecond}
		}
		l, err := lc.Listen("udp", &net.UDPAddr{IP: net.IPv4(127, 0, 0, 1)})
		if err != nil {
			panic(err)
		}
		var stop int32
		var wg sync.WaitGroup
		var cmu sync.Mutex
		var conns []net.Conn
		acceptDone := make(chan struct{})
		wg.Add(1)
		go func() {
			defer wg.Done()
			defer close(acceptDone)
			for {
				c, err := l.Accept()
				if err != nil {
					return
				}
				cmu.Lock()
				conns = append(conns, c)
				cmu.Unlock()
				wg.Add(2)
				go func() {
					defer wg.Done()
					p := make([]byte, 2000)
					for {
						n, err := c.Read(p)
						if err != nil {
							return
						}
						c.Write(p[:n])
						op()
					}
				}()
				go func() {
					defer wg.Done()
					for atomic.LoadInt32(&stop) == 0 {
						c.SetDeadline(time.Now().Add(time.Duration(1+rand.Intn(5)) * time.Millisecond))
						_ = c.RemoteAddr()
						_ = c.LocalAddr()
						time.Sleep(100 * time.Microsecond)
					}
				}()
			}
		}()
		var clients []*net.UDPConn
		for i := 0; i < 6; i++ {
			c, _ := net.DialUDP("udp", nil, l.Addr().(*net.UDPAddr))
			clients = append(clients, c)
			wg.Add(1)
			go func() {
				defer wg.Done()
				p := make([]byte, 2000)
				for atomic.LoadInt32(&stop) == 0 {
					c.Write(make([]byte, 1+rand.Intn(1400)))
					c.SetReadDeadline(time.Now().Add(300 * time.Microsecond))
					c.Read(p)
					op()
				}
			}()
		}
		time.Sleep(12 * time.Millisecond)
		cmu.Lock()
		half := append([]net.Conn{}, conns[:len(conns)/2]...)
		cmu.Unlock()
		for _, c := range half {
			go c.Close()
		}
		l.Close()
		atomic.StoreInt32(&stop, 1)
		<-acceptDone // a connection handed out by an Accept racing with Close must be closed too
		cmu.Lock()
		for _, c := range conns {
			c.Close()
		}
		cmu.Unlock()
		for _, c := range clients {
			c.Close()
		}
		wg.Wait()
		cmu.Lock()
		for _, c := range conns {
			c.Close()
		}
		cmu.Unlock()
		// the listener and its LAST connection closed at the same time from two goroutines (also the last two connections
		// after the listener), several times: the final-close decision is taken on both sides
		for rep := 0; rep < 6; rep++ {
			l2, err := lc.Listen("udp", &net.UDPAddr{IP: net.IPv4(127, 0, 0, 1)})
			if err != nil {
				panic(err)
			}
			var acc []net.Conn
			var cls []*net.UDPConn
			for i := 0; i < 1+rep%2; i++ {
				cl, _ := net.DialUDP("udp", nil, l2.Addr().(*net.UDPAddr))
				cl.Write([]byte("hello"))
				c, err := l2.Accept()
				if err != nil {
					panic(err)
				}
				acc = append(acc, c)
				cls = append(cls, cl)
			}
			var cw sync.WaitGroup
			start := make(chan struct{})
			for _, c := range acc {
				cw.Add(1)
				go func(c net.Conn) { defer cw.Done(); <-start; c.Close() }(c)
			}
			cw.Add(1)
			go func() { defer cw.Done(); <-start; l2.Close() }()
			close(start)
			cw.Wait()
			for _, cl := range cls {
				cl.Close()
			}
			op()
		}
	}
}

// j. netctx: Close during I/O
func wNetctx(iters int) {
	for k := 0; k < iters/50+1; k++ {
		x, y := net.Pipe()
		a, b := netctx.NewConn(x), netctx.NewConn(y)
		var wg sync.WaitGroup
		wg.Add(4)
		go func() {
			defer wg.Done()
			for i := 0; i < 50; i++ {
				ctx, cancel := context.WithTimeout(context.Background(), time.Duration(rand.Intn(300))*time.Microsecond)
				if _, err := a.WriteContext(ctx, make([]byte, 100)); err != nil && err == netctx.ErrClosing {
					cancel()
					return
				}
				cancel()
				op()
			}
		}()
		go func() {
			defer wg.Done()
			p := make([]byte, 100)
			for i := 0; i < 50; i++ {
				ctx, cancel := context.WithTimeout(context.Background(), time.Duration(rand.Intn(300))*time.Microsecond)
				b.ReadContext(ctx, p)
				cancel()
				op()
			}
		}()
		go func() {
			defer wg.Done()
			time.Sleep(time.Duration(rand.Intn(3000)) * time.Microsecond)
			a.Close()
		}()
		go func() {
			defer wg.Done()
			time.Sleep(time.Duration(rand.Intn(3000)) * time.Microsecond)
			b.Close()
		}()
		wg.Wait()
		// packet flavour
		p1, _ := net.ListenUDP("udp", &net.UDPAddr{IP: net.IPv4(127, 0, 0, 1)})
		pc := netctx.NewPacketConn(p1)
		wg.Add(3)
		go func() {
			defer wg.Done()
			buf := make([]byte, 100)
			for i := 0; i < 20; i++ {
				ctx, cancel := context.WithTimeout(context.Background(), time.Duration(rand.Intn(300))*time.Microsecond)
				pc.ReadFromContext(ctx, buf)
				cancel()
				op()
			}
		}()
		go func() {
			defer wg.Done()
			for i := 0; i < 20; i++ {
				ctx, cancel := context.WithTimeout(context.Background(), time.Duration(rand.Intn(300))*time.Microsecond)
				pc.WriteToContext(ctx, []byte("x"), p1.LocalAddr())
				cancel()
				op()
			}
		}()
		go func() {
			defer wg.Done()
			time.Sleep(time.Duration(rand.Intn(2000)) * time.Microsecond)
			pc.Close()
		}()
		wg.Wait()
	}
}

// k. Bridge: writes from both ends, Tick/Process and configuration calls
func wBridge(iters int) {
	for k := 0; k < iters/200+1; k++ {
		br := test.NewBridge()
		c0, c1 := br.GetConn0(), br.GetConn1()
		var stop int32
		var wg sync.WaitGroup
		for _, c := range []net.Conn{c0, c1} {
			c := c
			wg.Add(2)
			go func() {
				defer wg.Done()
				for atomic.LoadInt32(&stop) == 0 {
					c.Write(make([]byte, 1+rand.Intn(50)))
					op()
				}
			}()
			go func() {
				defer wg.Done()
				p := make([]byte, 100)
				for atomic.LoadInt32(&stop) == 0 {
					c.SetReadDeadline(time.Now().Add(500 * time.Microsecond))
					c.Read(p)
					op()
				}
			}()
		}
		wg.Add(2)
		go func() {
			defer wg.Done()
			for atomic.LoadInt32(&stop) == 0 {
				br.Tick()
				br.Len(0)
				op()
			}
		}()
		go func() {
			defer wg.Done()
			for atomic.LoadInt32(&stop) == 0 {
				br.DropNextNWrites(rand.Intn(2), rand.Intn(3))
				br.ReorderNextNWrites(rand.Intn(2), 2+rand.Intn(3))
				br.Reorder(rand.Intn(2))
				br.Filter(rand.Intn(2), func(b []byte) bool { return len(b)%2 == 0 })
				time.Sleep(50 * time.Microsecond)
				op()
			}
		}()
		time.Sleep(10 * time.Millisecond)
		atomic.StoreInt32(&stop, 1)
		wg.Wait()
	}
}

// l. many flows through one NAT in both directions (child router thread translates outbound while the parent
// router thread translates inbound), short mapping lifetime so that expiry, port allocation and removal run
// under traffic; host-name lookups through the router chain concurrent with AddHost
func wNAT(iters int) {
	types := []vnet.NATType{
		{MappingBehavior: vnet.EndpointIndependent, FilteringBehavior: vnet.EndpointIndependent, MappingLifeTime: 2 * time.Millisecond},
		{MappingBehavior: vnet.EndpointAddrPortDependent, FilteringBehavior: vnet.EndpointAddrPortDependent, MappingLifeTime: 3 * time.Millisecond},
		{MappingBehavior: vnet.EndpointAddrDependent, FilteringBehavior: vnet.EndpointAddrDependent, MappingLifeTime: 30 * time.Second},
		{Mode: vnet.NATModeNAT1To1},
		// mapping broader than filtering: an existing mapping gains a permission whenever its owner contacts a new
		// remote, while replies to earlier remotes are being admitted through the same mapping
		{MappingBehavior: vnet.EndpointIndependent, FilteringBehavior: vnet.EndpointAddrPortDependent, MappingLifeTime: 30 * time.Second},
		{MappingBehavior: vnet.EndpointIndependent, FilteringBehavior: vnet.EndpointAddrDependent, MappingLifeTime: 5 * time.Millisecond},
		{MappingBehavior: vnet.EndpointAddrDependent, FilteringBehavior: vnet.EndpointAddrPortDependent, MappingLifeTime: 30 * time.Second},
	}
	for k := 0; k < iters/40+1; k++ {
		nt := types[k%len(types)]
		wan, err := vnet.NewRouter(&vnet.RouterConfig{CIDR: "1.2.3.0/24", LoggerFactory: vn.Silent()})
		if err != nil {
			panic(err)
		}
		cfg := &vnet.RouterConfig{CIDR: "192.168.0.0/24", StaticIPs: []string{"1.2.3.100"}, NATType: &nt, LoggerFactory: vn.Silent()}
		if nt.Mode == vnet.NATModeNAT1To1 {
			cfg.StaticIPs = []string{"1.2.3.100/192.168.0.1", "1.2.3.101/192.168.0.2"}
		}
		lan, err := vnet.NewRouter(cfg)
		if err != nil {
			panic(err)
		}
		srv, _ := vnet.NewNet(&vnet.NetConfig{StaticIPs: []string{"1.2.3.4", "1.2.3.5"}})
		h1, _ := vnet.NewNet(&vnet.NetConfig{StaticIPs: []string{"192.168.0.1"}})
		h2, _ := vnet.NewNet(&vnet.NetConfig{StaticIPs: []string{"192.168.0.2"}})
		wan.AddNet(srv)
		wan.AddRouter(lan)
		lan.AddNet(h1)
		lan.AddNet(h2)
		wan.AddHost("srv.example", "1.2.3.4")
		if err := wan.Start(); err != nil {
			panic(err)
		}
		var servers []net.PacketConn
		for _, ip := range []string{"1.2.3.4", "1.2.3.5"} {
			for _, port := range []int{7000, 7001} {
				c, err := srv.ListenUDP("udp", vn.UDP(ip, port))
				if err != nil {
					panic(err)
				}
				servers = append(servers, c)
			}
		}
		var stop int32
		var wg sync.WaitGroup
		for _, c := range servers { // echo, plus an unsolicited datagram to a guessed mapped port
			c := c
			wg.Add(1)
			go func() {
				defer wg.Done()
				buf := make([]byte, 100)
				for {
					n, from, err := c.ReadFrom(buf)
					if err != nil {
						return
					}
					c.WriteTo(buf[:n], from)
					c.WriteTo([]byte("probe"), vn.UDP("1.2.3.100", 49152+rand.Intn(40)))
					op()
				}
			}()
		}
		var clients []net.PacketConn
		for _, h := range []*vnet.Net{h1, h2} {
			h := h
			for g := 0; g < 3; g++ {
				wg.Add(1)
				go func() {
					defer wg.Done()
					for atomic.LoadInt32(&stop) == 0 {
						c, err := h.ListenUDP("udp", &net.UDPAddr{IP: net.IPv4zero})
						if err != nil {
							continue
						}
						for j := 0; j < 6; j++ {
							c.WriteTo([]byte("ping"), vn.UDP([]string{"1.2.3.4", "1.2.3.5"}[rand.Intn(2)], 7000+rand.Intn(2)))
							if j == 3 {
								time.Sleep(time.Duration(rand.Intn(4)) * time.Millisecond) // let short-lived mappings expire
							}
						}
						buf := make([]byte, 100)
						c.SetReadDeadline(time.Now().Add(time.Duration(rand.Intn(2000)) * time.Microsecond))
						c.ReadFrom(buf)
						c.Close()
						op()
					}
				}()
			}
			// a long-lived socket: replies keep coming in through its mapping while it keeps contacting remotes it has
			// not contacted before (ports nobody listens on), each of which adds a permission to the same mapping
			c, _ := h.ListenUDP("udp", &net.UDPAddr{IP: net.IPv4zero})
			clients = append(clients, c)
			wg.Add(2)
			go func() {
				defer wg.Done()
				for n := 0; atomic.LoadInt32(&stop) == 0; n++ {
					c.WriteTo([]byte("ping"), vn.UDP("1.2.3.4", 7000+n%2))
					c.WriteTo([]byte("knock"), vn.UDP([]string{"1.2.3.4", "1.2.3.5", "1.2.3.77"}[n%3], 8000+rand.Intn(20000)))
					op()
				}
			}()
			go func() {
				defer wg.Done()
				buf := make([]byte, 100)
				for {
					if _, _, err := c.ReadFrom(buf); err != nil {
						return
					}
				}
			}()
		}
		for i := 0; i < 2; i++ { // name resolution walks lan -> wan resolvers while names are being added
			i := i
			wg.Add(1)
			go func() {
				defer wg.Done()
				for n := 0; atomic.LoadInt32(&stop) == 0; n++ {
					if i == 0 {
						wan.AddHost(fmt.Sprintf("h%d.example", n%50), fmt.Sprintf("1.2.3.%d", 10+n%50))
						lan.AddHost(fmt.Sprintf("l%d.example", n%50), fmt.Sprintf("192.168.0.%d", 10+n%50))
					} else {
						h1.ResolveUDPAddr("udp", "srv.example:7000")
						h2.ResolveUDPAddr("udp", fmt.Sprintf("h%d.example:1", n%50))
						h1.ResolveIPAddr("ip", fmt.Sprintf("l%d.example", n%50))
						srv.ResolveUDPAddr("udp", "srv.example:7000")
					}
					op()
				}
			}()
		}
		time.Sleep(20 * time.Millisecond)
		atomic.StoreInt32(&stop, 1)
		for _, c := range clients {
			c.Close()
		}
		for _, c := range servers {
			c.Close()
		}
		wg.Wait()
		wan.Stop()
	}
}

var workloads = map[string]func(int){
	"build": wBuild, "socket": wSocket, "bind": wBind, "tbf": wTBF, "filters": wFilters, "buffer": wBuffer,
	"deadline": wDeadline, "dpipe": wDpipe, "listener": wListener, "netctx": wNetctx, "bridge": wBridge, "nat": wNAT,
}

// Workloads lists the names in a fixed order (shard i runs workload i mod len).
var order = []string{"build", "socket", "bind", "tbf", "filters", "buffer", "deadline", "dpipe", "listener", "netctx", "bridge", "nat"}

func main() {
	tier := flag.String("tier", "quick", "")
	seed := flag.Int64("seed", 1, "")
	shard := flag.Int("shard", 0, "")
	nshard := flag.Int("nshard", 1, "")
	out := flag.String("out", "", "")
	replay := flag.String("replay", "", "")
	wl := flag.String("w", "", "workload (default: by shard)")
	flag.Parse()
	_, _ = nshard, replay
	rand.Seed(*seed*7 + int64(*shard))
	installYield(*seed)
	r := res.New("C19")
	r.Rule = "dedicated concurrent client programs (parallel construction of independent networks; one vnet socket from 7 goroutines; bind/close storm; token bucket Set under traffic; AddChunkFilter, delay and loss filters under traffic; every packetio.Buffer method concurrently; Deadline Set/Done/Err against expiring timers; dpipe both ends; UDP listener Accept/Close/conn I/O with and without batching; netctx Close during I/O; Bridge writes/Tick/configuration; many flows through one NAT in both directions with expiring mappings for seven NAT types (incl. mapping broader than filtering), and host-name lookups concurrent with AddHost) under the Go race detector, free-running and with sync-free random delays at instrumented synchronisation points; reports are counted from GORACE log files and de-duplicated by the pair of innermost pion/transport frames"
	r.Assumptions = []string{"happens-before race detection reports only races whose two accesses occur in a run", "replay detectors and attaching a Net to a router while its sockets send are not documented concurrent-safe and are excluded"}
	name := *wl
	if name == "" {
		name = order[*shard%len(order)]
	}
	iters := 300
	if *tier == "thorough" {
		iters = 3000
	}
	f := workloads[name]
	if f == nil {
		fmt.Fprintln(os.Stderr, "unknown workload", name)
		os.Exit(2)
	}
	f(iters)
	r.Eval(1)
	r.Count("operations_"+name, atomic.LoadInt64(&ops))
	r.Count("workloads_run", 1)
	r.Count("yield_delays_taken", atomic.LoadInt64(&yieldDelays))
	r.DistinctKey(name + "/" + yieldMode)
	r.Sample(map[string]interface{}{"workload": name, "operations": atomic.LoadInt64(&ops), "mode": yieldMode})
	r.Write(*out)
}
