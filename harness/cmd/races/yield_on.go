//go:build verifyield

package main

import (
	"runtime"
	"time"

	"github.com/pion/transport/v3/connctx"
	"github.com/pion/transport/v3/deadline"
	"github.com/pion/transport/v3/dpipe"
	"github.com/pion/transport/v3/netctx"
	"github.com/pion/transport/v3/packetio"
	"github.com/pion/transport/v3/test"
	"github.com/pion/transport/v3/udp"
	"github.com/pion/transport/v3/vnet"
)

var yieldDelays int64 // not counted: the callback must not touch shared state (it would add happens-before edges)
var yieldMode = "race+sync-free-delays"

// delay widens windows at instrumented synchronisation points. It uses no locks, atomics or shared variables: the
// decision is a hash of the point id and the clock, so it cannot order two accesses for the race detector.
func delay(id int) {
	t := uint64(time.Now().UnixNano())
	h := (t ^ uint64(id)*0xBF58476D1CE4E5B9) * 0x9E3779B97F4A7C15
	switch (h >> 40) % 24 {
	case 0:
		runtime.Gosched()
	case 1:
		time.Sleep(time.Duration((h>>50)%150) * time.Microsecond)
	}
}

func installYield(seed int64) {
	packetio.VerifYield = delay
	deadline.VerifYield = delay
	udp.VerifYield = delay
	dpipe.VerifYield = delay
	netctx.VerifYield = delay
	connctx.VerifYield = delay
	test.VerifYield = delay
	vnet.VerifYield = delay
}
