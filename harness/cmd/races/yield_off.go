//go:build !verifyield

package main

var yieldDelays int64
var yieldMode = "race"

func installYield(seed int64) {}
