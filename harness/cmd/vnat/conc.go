package main

// Concurrent stage of the NAT monitor (C02 / C03): the router goroutines of a parent and a child router call
// translateOutbound and translateInbound of one NAT at the same time. Rounds of
//   sequential set-up  ->  clock advance  ->  concurrent phase at a fixed virtual time  ->  sequential audit
// make the expected answers independent of the interleaving: at a fixed time a mapping is either live for the whole
// phase or expired for the whole phase, so all outbound datagrams of one mapping key must show one and the same
// external address during the phase and in the audit that follows it (the old one if the mapping was live, one new one
// if it had expired), different keys must show different addresses, and a remote that was contacted through a mapping
// must be admitted to exactly the mapping's owner afterwards.

import (
	"fmt"
	"math/rand"
	"net"
	"sync"
	"sync/atomic"
	"time"

	"github.com/pion/transport/v3/vnet"
	"verifharness/internal/res"
	"verifharness/internal/vn"
)

type concCase struct {
	MapB   int   `json:"map"`
	FilB   int   `json:"filter"`
	Rounds int   `json:"rounds"`
	Seed   int64 `json:"seed"`
}

func runConc(c *concCase, prop string, r *res.Result) (v *verdict) {
	defer func() {
		if p := recover(); p != nil {
			v = &verdict{"C02", "nat:conc:panic", fmt.Sprintf("the NAT panicked: %v", p), 0}
		}
	}()
	const L = int64(time.Second)
	atomic.StoreInt64(&vclock, 0)
	base := time.Unix(1_000_000_000, 0)
	vnet.VerifSetNow(func() time.Time { return base.Add(time.Duration(atomic.LoadInt64(&vclock))) })
	defer vnet.VerifSetNow(nil)
	nat, err := vnet.VerifNewNAT(vnet.NATType{MappingBehavior: vnet.EndpointDependencyType(c.MapB), FilteringBehavior: vnet.EndpointDependencyType(c.FilB), MappingLifeTime: time.Duration(L)},
		[]net.IP{net.ParseIP("1.2.3.4").To4()}, nil, vn.Silent())
	if err != nil {
		return &verdict{"C02", "nat:ctor", err.Error(), 0}
	}
	rng := rand.New(rand.NewSource(c.Seed))
	ends := []string{"192.168.0.10:5000", "192.168.0.10:5001", "192.168.0.11:5000"}
	rems := []string{"5.6.7.1:80", "5.6.7.1:81", "5.6.7.2:80"}
	addr := func(s string) *net.UDPAddr { a, _ := net.ResolveUDPAddr("udp", s); return a }
	keyOf := func(e, rm string) string {
		ra := addr(rm)
		return e + "|" + depKey(c.MapB, ra)
	}
	out := func(e, rm string) string {
		ch, err := nat.Out(vnet.VerifNewChunkUDP(addr(e), addr(rm), []byte("o")))
		if err != nil || ch == nil {
			return ""
		}
		return ch.SourceAddr().String()
	}
	in := func(rm, ext string) string {
		ea := addr(ext)
		if ea == nil {
			return ""
		}
		ch, err := nat.In(vnet.VerifNewChunkUDP(addr(rm), ea, []byte("i")))
		if err != nil || ch == nil {
			return ""
		}
		return ch.DestinationAddr().String()
	}
	type flow struct{ e, rm string }
	cur := map[string]string{}     // key -> external address as of the last sequential observation
	lastOut := map[string]int64{}  // key -> virtual time of the last outbound datagram
	flowOf := map[string]flow{}    // key -> one (endpoint, remote) that uses it
	contacted := map[string]bool{} // key|remote -> an outbound datagram went to that remote through the mapping since it was (re)created
	for round := 0; round < c.Rounds; round++ {
		// set-up: a few flows send (sequentially)
		for k := 0; k < 2+rng.Intn(3); k++ {
			e, rm := ends[rng.Intn(len(ends))], rems[rng.Intn(len(rems))]
			key := keyOf(e, rm)
			x := out(e, rm)
			if x == "" {
				return &verdict{"C02", "nat:conc:out-failed", fmt.Sprintf("round %d set-up: outbound %s -> %s failed", round, e, rm), round}
			}
			now := atomic.LoadInt64(&vclock)
			if old, ok := cur[key]; ok && now-lastOut[key] < L && old != x {
				return &verdict{"C02", "nat:conc:mapping-not-kept", fmt.Sprintf("round %d set-up: %s -> %s got %s, its live mapping (last outbound %v ago) is %s", round, e, rm, x, time.Duration(now-lastOut[key]), old), round}
			}
			if old, ok := cur[key]; !ok || old != x {
				for ck := range contacted {
					if len(ck) > len(key) && ck[:len(key)+1] == key+"|" {
						delete(contacted, ck)
					}
				}
			}
			cur[key], lastOut[key], flowOf[key] = x, now, flow{e, rm}
			contacted[key+"|"+rm] = true
		}
		// clock
		adv := []int64{0, L / 3, L + 1, L + 1, 2 * L}[rng.Intn(5)]
		atomic.AddInt64(&vclock, adv)
		now := atomic.LoadInt64(&vclock)
		// concurrent phase at fixed time
		type obs struct {
			key, ext string
			rm       string
		}
		var omu sync.Mutex
		var seen []obs
		var wg sync.WaitGroup
		stale := map[string]string{}
		for k, x := range cur {
			stale[k] = x
		}
		keys := make([]string, 0, len(flowOf))
		for k := range flowOf {
			keys = append(keys, k)
		}
		for g := 0; g < 3+rng.Intn(3); g++ {
			wg.Add(1)
			go func(gs int64) {
				defer wg.Done()
				grng := rand.New(rand.NewSource(gs))
				for k := 0; k < 4+grng.Intn(6); k++ {
					key := keys[grng.Intn(len(keys))]
					f := flowOf[key]
					switch grng.Intn(3) {
					case 0, 1:
						x := out(f.e, f.rm)
						omu.Lock()
						seen = append(seen, obs{key, x, f.rm})
						omu.Unlock()
					default:
						// inbound to the address the mapping had before the phase (possibly expired by now), from its remote or a stranger
						src := f.rm
						if grng.Intn(3) == 0 {
							src = "9.9.9.9:99"
						}
						in(src, stale[key])
					}
				}
			}(c.Seed + int64(round)*17 + int64(g))
		}
		wg.Wait()
		r.Count("conc_phases", 1)
		// audit (sequential, same virtual time)
		perKey := map[string]string{}
		for _, o := range seen {
			if o.ext == "" {
				return &verdict{"C02", "nat:conc:out-failed", fmt.Sprintf("round %d: a concurrent outbound datagram of %s failed although ports are plentiful", round, o.key), round}
			}
			if p, ok := perKey[o.key]; ok && p != o.ext {
				return &verdict{"C02", "nat:conc:mapping-not-kept", fmt.Sprintf("round %d: outbound datagrams of mapping key %s got %s and %s in one phase at a fixed time (other goroutines were translating inbound and outbound datagrams meanwhile)", round, o.key, p, o.ext), round}
			}
			perKey[o.key] = o.ext
			wasLive := now-lastOut[o.key] < L
			if wasLive && o.ext != cur[o.key] {
				return &verdict{"C02", "nat:conc:mapping-not-kept", fmt.Sprintf("round %d: mapping key %s was live (last outbound %v ago, lifetime 1s) and got %s instead of its address %s", round, o.key, time.Duration(now-lastOut[o.key]), o.ext, cur[o.key]), round}
			}
			if !wasLive && now-lastOut[o.key] > L && o.ext != cur[o.key] {
				// a successor mapping: permissions start afresh
				for ck := range contacted {
					if len(ck) > len(o.key) && ck[:len(o.key)+1] == o.key+"|" {
						delete(contacted, ck)
					}
				}
			}
			cur[o.key], lastOut[o.key] = o.ext, now
			contacted[o.key+"|"+o.rm] = true
		}
		for key := range perKey {
			f := flowOf[key]
			x := out(f.e, f.rm)
			r.Count("conc_audits", 1)
			if x != perKey[key] {
				return &verdict{"C02", "nat:conc:mapping-not-kept", fmt.Sprintf("round %d audit: %s -> %s got %s right after the phase in which the same mapping key got %s (same virtual time): the mapping did not survive concurrent inbound / outbound translation", round, f.e, f.rm, x, perKey[key]), round}
			}
			lastOut[key] = now
			contacted[key+"|"+f.rm] = true
		}
		// live mappings: different keys, different external addresses
		byExt := map[string]string{}
		for key, x := range cur {
			if now-lastOut[key] >= L {
				continue
			}
			if o, ok := byExt[x]; ok && o != key {
				return &verdict{"C02", "nat:conc:external-shared", fmt.Sprintf("round %d: live mappings %s and %s both hold %s", round, o, key, x), round}
			}
			byExt[x] = key
		}
		// C03 side: the contacted remote is admitted to the owner, a stranger is not (unless filtering is endpoint independent)
		for key := range perKey {
			f := flowOf[key]
			if !contacted[key+"|"+f.rm] {
				continue
			}
			if d := in(f.rm, cur[key]); d != f.e {
				return &verdict{"C03", "nat:conc:refused-permitted", fmt.Sprintf("round %d audit: inbound %s -> %s (live mapping of %s, which has sent to that remote through it) was forwarded to %q, want %s", round, f.rm, cur[key], f.e, d, f.e), round}
			}
			if c.FilB != 0 {
				if d := in("9.9.9.9:99", cur[key]); d != "" {
					return &verdict{"C03", "nat:conc:admitted-no-permission", fmt.Sprintf("round %d audit: inbound from a stranger to %s was forwarded to %s", round, cur[key], d), round}
				}
			}
			r.Count("conc_inbound_audits", 1)
		}
		r.DistinctKey(fmt.Sprintf("conc map=%d fil=%d adv=%d", c.MapB, c.FilB, adv/(L/3)))
	}
	_ = prop
	return nil
}
