// Command vnat: reference-model monitor for the vnet NAT on a virtual clock (C02 mapping, C03 filtering).
// One engine, one run; -prop selects which class of disagreement is reported (both are always computed so that
// the model stays in step).
package main

import (
	"bytes"
	"encoding/json"
	"flag"
	"fmt"
	"math/rand"
	"net"
	"os"
	"strings"
	"sync/atomic"
	"time"

	"github.com/pion/transport/v3/vnet"
	"verifharness/internal/res"
	"verifharness/internal/vn"
)

type step struct {
	K    string `json:"k"`             // out | in | adv
	Src  string `json:"src,omitempty"` // out: internal endpoint; in: remote
	Dst  string `json:"dst,omitempty"` // out: remote; in: external address ("@i" = external of the i-th mapping ever created)
	Adv  int64  `json:"adv,omitempty"` // adv: nanoseconds
	Size int    `json:"size,omitempty"`
	// Form: byte form of the IPv4 addresses in the chunk handed to the NAT. bit 0: source as 4-byte net.IP (else 16-byte),
	// bit 1: destination as 4-byte net.IP. The same address must mean the same endpoint in either form.
	Form int `json:"form,omitempty"`
}

func formed(a *net.UDPAddr, four bool) *net.UDPAddr {
	if a == nil {
		return a
	}
	if four {
		if v := a.IP.To4(); v != nil {
			a.IP = v
		}
	} else if v := a.IP.To16(); v != nil {
		a.IP = v
	}
	return a
}

type ncase struct {
	Mode   int      `json:"mode"` // 0 NAPT, 1 1:1
	MapB   int      `json:"map"`
	FilB   int      `json:"filter"`
	LifeNs int64    `json:"life_ns"` // 0 = default (30s)
	Mapped []string `json:"mapped"`
	Local  []string `json:"local,omitempty"`
	Steps  []step   `json:"steps"`
}

type mmap struct {
	key     string
	src     string
	ext     string
	lastOut int64
	perms   map[string]bool
	idx     int
}

func depKey(b int, a *net.UDPAddr) string {
	switch b {
	case 0:
		return ""
	case 1:
		return a.IP.String()
	}
	return a.String()
}

var vclock int64

type verdict struct {
	prop, key, desc string
	at              int
}

const rangeSize = 0x4000

func runCase(c *ncase, r *res.Result) (v *verdict) {
	defer func() {
		if p := recover(); p != nil {
			v = &verdict{"C02", "nat:panic", fmt.Sprintf("the NAT panicked: %v", p), len(c.Steps) - 1}
		}
	}()
	return runCase1(c, r)
}

func runCase1(c *ncase, r *res.Result) *verdict {
	atomic.StoreInt64(&vclock, 0)
	base := time.Unix(1_000_000_000, 0)
	vnet.VerifSetNow(func() time.Time { return base.Add(time.Duration(atomic.LoadInt64(&vclock))) })
	defer vnet.VerifSetNow(nil)
	var mapped, local []net.IP
	for _, s := range c.Mapped {
		mapped = append(mapped, net.ParseIP(s).To4())
	}
	for _, s := range c.Local {
		local = append(local, net.ParseIP(s).To4())
	}
	nt := vnet.NATType{Mode: vnet.NATMode(c.Mode), MappingBehavior: vnet.EndpointDependencyType(c.MapB), FilteringBehavior: vnet.EndpointDependencyType(c.FilB), MappingLifeTime: time.Duration(c.LifeNs)}
	nat, err := vnet.VerifNewNAT(nt, mapped, local, vn.Silent())
	if err != nil {
		return &verdict{"C02", "nat:ctor", err.Error(), 0}
	}
	L := c.LifeNs
	if L == 0 {
		L = int64(30 * time.Second)
	}
	byKey := map[string]*mmap{}
	byExt := map[string]*mmap{}
	var created []*mmap // every mapping ever created (for "@i" references)
	now := func() int64 { return atomic.LoadInt64(&vclock) }
	live := func(m *mmap) int { // 1 live, 0 boundary, -1 expired
		age := now() - m.lastOut
		switch {
		case age < L:
			return 1
		case age == L:
			return 0
		}
		return -1
	}
	liveCount := func() int {
		n := 0
		for _, m := range byExt {
			if live(m) >= 0 {
				n++
			}
		}
		return n
	}
	drop := func(m *mmap) {
		delete(byKey, m.key)
		delete(byExt, m.ext)
	}
	pairOut := map[string]string{}
	pairIn := map[string]string{}
	for i := range c.Local {
		pairOut[c.Local[i]] = c.Mapped[i]
		pairIn[c.Mapped[i]] = c.Local[i]
	}
	for i, st := range c.Steps {
		switch st.K {
		case "adv":
			atomic.AddInt64(&vclock, st.Adv)
			r.Count("clock_advances", 1)
		case "out":
			src, _ := net.ResolveUDPAddr("udp", st.Src)
			dst, _ := net.ResolveUDPAddr("udp", st.Dst)
			src, dst = formed(src, st.Form&1 != 0), formed(dst, st.Form&2 != 0)
			if st.Form != 0 {
				r.Count("chunks_with_4byte_addresses", 1)
			}
			pl := vn.Payload(uint64(i+1), st.Size)
			in := vnet.VerifNewChunkUDP(src, dst, pl)
			out, err := nat.Out(in)
			r.Count("outbound", 1)
			if c.Mode == 1 {
				want, ok := pairOut[src.IP.String()]
				if !ok {
					if out != nil {
						return &verdict{"C02", "nat1to1:unpaired-forwarded", fmt.Sprintf("step %d: outbound from unpaired local IP %s produced a chunk", i, src.IP), i}
					}
					r.Count("1to1_unpaired_out", 1)
					continue
				}
				if err != nil || out == nil {
					return &verdict{"C02", "nat1to1:out-failed", fmt.Sprintf("step %d: outbound from paired %s failed: %v", i, src, err), i}
				}
				ws := fmt.Sprintf("%s:%d", want, src.Port)
				if out.SourceAddr().String() != ws || out.DestinationAddr().String() != dst.String() || !bytes.Equal(out.UserData(), pl) {
					return &verdict{"C02", "nat1to1:out-wrong", fmt.Sprintf("step %d: outbound %s -> %s translated to %s -> %s, want source %s, same destination and payload", i, src, dst, out.SourceAddr(), out.DestinationAddr(), ws), i}
				}
				r.Count("1to1_out", 1)
				continue
			}
			key := src.String() + "|" + depKey(c.MapB, dst)
			m := byKey[key]
			lv := -1
			if m != nil {
				lv = live(m)
			}
			if err != nil || out == nil {
				// allocation may fail only when every port of the dynamic range is held by a live mapping
				if lv == 1 {
					return &verdict{"C02", "nat:live-mapping-failed", fmt.Sprintf("step %d: outbound %s -> %s failed (%v) although its mapping %s is live", i, src, dst, err, m.ext), i}
				}
				if n := liveCount(); n < rangeSize {
					return &verdict{"C02", "nat:alloc-failed-with-free-ports", fmt.Sprintf("step %d: outbound %s -> %s got no external address (%v) although only %d of %d dynamic ports are held by live mappings (%d mappings created so far)", i, src, dst, err, n, rangeSize, len(created)), i}
				}
				r.Count("alloc_failed_range_full", 1)
				if m != nil && lv <= 0 {
					drop(m)
				}
				continue
			}
			ext := out.SourceAddr().String()
			if out.DestinationAddr().String() != dst.String() || !bytes.Equal(out.UserData(), pl) {
				return &verdict{"C02", "nat:out-modified", fmt.Sprintf("step %d: outbound translation changed destination or payload", i), i}
			}
			reuse := false
			switch lv {
			case 1:
				if ext != m.ext {
					return &verdict{"C02", "nat:mapping-not-kept", fmt.Sprintf("step %d: %s -> %s got %s, but its live mapping (last outbound %v ago, lifetime %v) is %s", i, src, dst, ext, time.Duration(now()-m.lastOut), time.Duration(L), m.ext), i}
				}
				reuse = true
				r.Count("mapping_reused", 1)
			case 0:
				reuse = ext == m.ext // exactly one lifetime: unconstrained, follow the implementation
				r.Count("boundary_exactly_L", 1)
			case -1:
				if m != nil && ext == m.ext {
					return &verdict{"C02", "nat:mapping-survived-idle-lifetime", fmt.Sprintf("step %d: %s -> %s still got %s although %v passed since its last outbound datagram (lifetime %v)", i, src, dst, ext, time.Duration(now()-m.lastOut), time.Duration(L)), i}
				}
				if m != nil {
					r.Count("mapping_expired_then_recreated", 1)
				}
			}
			if reuse {
				m.lastOut = now()
				m.perms[depKey(c.FilB, dst)] = true
			} else {
				if m != nil {
					drop(m)
				}
				ea, _ := net.ResolveUDPAddr("udp", ext)
				okIP := false
				for _, ip := range mapped {
					if ip.Equal(ea.IP) {
						okIP = true
					}
				}
				if !okIP || ea.Port < 1 || ea.Port > 65535 {
					return &verdict{"C02", "nat:invalid-external", fmt.Sprintf("step %d: new mapping got external %s (router IPs %v)", i, ext, c.Mapped), i}
				}
				if o := byExt[ext]; o != nil {
					if live(o) == 1 {
						return &verdict{"C02", "nat:external-shared", fmt.Sprintf("step %d: %s (%s) received external %s which the live mapping of %s still holds", i, src, key, ext, o.key), i}
					}
					drop(o)
				}
				nm := &mmap{key: key, src: src.String(), ext: ext, lastOut: now(), perms: map[string]bool{depKey(c.FilB, dst): true}, idx: len(created)}
				byKey[key] = nm
				byExt[ext] = nm
				created = append(created, nm)
				r.Count("mappings_created", 1)
				r.Max("max_live_mappings", int64(liveCount()))
			}
			r.DistinctKey(fmt.Sprintf("out map=%d fil=%d life=%d ips=%d state=%d reuse=%v", c.MapB, c.FilB, c.LifeNs, len(c.Mapped), lv, reuse))
		case "in":
			rem, _ := net.ResolveUDPAddr("udp", st.Src)
			extS := st.Dst
			if strings.HasPrefix(extS, "@") {
				var k int
				fmt.Sscanf(extS, "@%d", &k)
				if len(created) == 0 {
					continue
				}
				if strings.HasPrefix(extS, "@r") { // "@r<j>": the j-th most recently created mapping
					fmt.Sscanf(extS, "@r%d", &k)
					extS = created[len(created)-1-k%len(created)].ext
				} else {
					extS = created[k%len(created)].ext
				}
			}
			ext, _ := net.ResolveUDPAddr("udp", extS)
			rem, ext = formed(rem, st.Form&1 != 0), formed(ext, st.Form&2 != 0)
			if rem == nil || ext == nil {
				continue
			}
			pl := vn.Payload(uint64(i+1), st.Size)
			in := vnet.VerifNewChunkUDP(rem, ext, pl)
			out, err := nat.In(in)
			r.Count("inbound", 1)
			admitted := err == nil && out != nil
			if c.Mode == 1 {
				want, ok := pairIn[ext.IP.String()]
				if !ok {
					if admitted {
						return &verdict{"C03", "nat1to1:unpaired-admitted", fmt.Sprintf("step %d: inbound to unpaired %s admitted", i, ext), i}
					}
					r.Count("1to1_unpaired_in", 1)
					continue
				}
				wd := fmt.Sprintf("%s:%d", want, ext.Port)
				if !admitted || out.DestinationAddr().String() != wd || out.SourceAddr().String() != rem.String() || !bytes.Equal(out.UserData(), pl) {
					return &verdict{"C03", "nat1to1:in-wrong", fmt.Sprintf("step %d: inbound %s -> %s: admitted=%v, want forwarded to %s with source and payload unchanged", i, rem, ext, admitted, wd), i}
				}
				r.Count("1to1_in", 1)
				continue
			}
			m := byExt[ext.String()]
			why := ""
			lv := -1
			switch {
			case m == nil:
				why = "no-binding"
			default:
				lv = live(m)
				if lv == -1 {
					why = "expired"
				} else if !m.perms[depKey(c.FilB, rem)] {
					why = "no-permission"
				}
			}
			r.DistinctKey(fmt.Sprintf("in map=%d fil=%d life=%d why=%s lv=%d", c.MapB, c.FilB, c.LifeNs, why, lv))
			if why != "" {
				r.Count("inbound_must_refuse_"+why, 1)
				if admitted {
					return &verdict{"C03", "nat:admitted-" + why, fmt.Sprintf("step %d: inbound %s -> %s admitted (forwarded to %s) although the model says %s", i, rem, ext, out.DestinationAddr(), why), i}
				}
				if m != nil && lv == -1 {
					drop(m)
				}
				continue
			}
			if lv == 0 {
				r.Count("boundary_exactly_L", 1)
				if !admitted {
					drop(m) // the implementation treats exactly one lifetime as expired: follow it
					continue
				}
			} else if !admitted {
				return &verdict{"C03", "nat:refused-permitted", fmt.Sprintf("step %d: inbound %s -> %s refused (%v) although mapping of %s is live and %s was contacted through it (filter behaviour %d)", i, rem, ext, err, m.src, rem, c.FilB), i}
			}
			if out.DestinationAddr().String() != m.src {
				return &verdict{"C03", "nat:wrong-owner", fmt.Sprintf("step %d: inbound %s -> %s forwarded to %s, the mapping was created by %s", i, rem, ext, out.DestinationAddr(), m.src), i}
			}
			if out.SourceAddr().String() != rem.String() || !bytes.Equal(out.UserData(), pl) {
				return &verdict{"C03", "nat:in-modified", fmt.Sprintf("step %d: inbound translation changed source or payload", i), i}
			}
			r.Count("inbound_admitted", 1)
		}
	}
	return nil
}

func genCase(rng *rand.Rand, exhaust int) *ncase {
	c := &ncase{}
	if exhaust == 0 && rng.Intn(8) == 0 {
		c.Mode = 1
		k := 1 + rng.Intn(4)
		for i := 0; i < k; i++ {
			c.Mapped = append(c.Mapped, fmt.Sprintf("1.2.3.%d", 1+i))
			c.Local = append(c.Local, fmt.Sprintf("192.168.0.%d", 10+i))
		}
	} else {
		c.MapB = rng.Intn(3)
		c.FilB = rng.Intn(3)
		c.LifeNs = []int64{0, int64(time.Second), int64(50 * time.Millisecond)}[rng.Intn(3)]
		c.Mapped = []string{"1.2.3.4"}
		if rng.Intn(4) == 0 {
			c.Mapped = append(c.Mapped, "1.2.3.5")
		}
		if rng.Intn(4) == 0 {
			// static mapped/local pairs configured on a NAPT NAT (RouterConfig.StaticIPs "ext/local" without the 1:1
			// mode): legal, and without meaning for a NAPT; translation and filtering must be what they are without
			for i := range c.Mapped {
				c.Local = append(c.Local, fmt.Sprintf("192.168.0.%d", 10+i))
			}
		}
	}
	L := c.LifeNs
	if L == 0 {
		L = int64(30 * time.Second)
	}
	nInt := 1 + rng.Intn(6)
	var ints, rems []string
	for i := 0; i < nInt; i++ {
		ints = append(ints, fmt.Sprintf("192.168.0.%d:%d", 10+i%3, 5000+i/3))
	}
	ints = append(ints, "192.168.0.77:5000") // unpaired in 1:1 mode
	nRem := 1 + rng.Intn(8)
	for i := 0; i < nRem; i++ {
		rems = append(rems, fmt.Sprintf("5.6.7.%d:%d", 1+i%3, 80+i/3))
	}
	strangers := []string{"9.9.9.9:99", "5.6.7.1:9999", "5.6.7.2:81"}
	alike := false
	advs := func() int64 {
		switch rng.Intn(8) {
		case 0:
			return 1
		case 1:
			return L - 1
		case 2:
			return L
		case 3:
			return L + 1
		case 4:
			return 3 * L
		case 5:
			return L / 2
		}
		return int64(rng.Intn(1000)) * int64(time.Millisecond) / 10
	}
	if exhaust > 0 {
		// more mappings than ports in the dynamic range: symmetric NAT, one flow that stays alive + a sweep of remotes
		c.MapB, c.FilB, c.Mode = 2, rng.Intn(3), 0
		c.LifeNs = int64(time.Second)
		L = c.LifeNs
		keep := "192.168.0.10:4000"
		keepRem := "5.6.7.1:80"
		c.Steps = append(c.Steps, step{K: "out", Src: keep, Dst: keepRem, Size: 8})
		total := 16384 + 40 + rng.Intn(200)
		expireAt := -1
		if exhaust == 2 {
			expireAt = 3000 + rng.Intn(9000) // earlier mappings expire in between: ports are free again
		}
		for k := 0; k < total; k++ {
			c.Steps = append(c.Steps, step{K: "out", Src: "192.168.0.11:4001", Dst: fmt.Sprintf("5.6.%d.%d:%d", 8+k/60000, 1+(k/250)%250, 1000+k%250), Size: 1})
			if k%500 == 499 {
				c.Steps = append(c.Steps, step{K: "adv", Adv: L / 100}, step{K: "out", Src: keep, Dst: keepRem, Size: 8}, step{K: "in", Src: keepRem, Dst: "@0", Size: 4})
			}
			if k == expireAt {
				// let everything but the kept flow expire
				c.Steps = append(c.Steps, step{K: "adv", Adv: L - 10}, step{K: "out", Src: keep, Dst: keepRem, Size: 8}, step{K: "adv", Adv: L - 10}, step{K: "out", Src: keep, Dst: keepRem, Size: 8})
			}
		}
		// the keys whose allocation was refused because every port was taken (history without expiry) are used again, twice:
		// a refusal must leave nothing behind, so they are refused again or get a proper address, and a new endpoint too
		dstOfK := func(k int) string { return fmt.Sprintf("5.6.%d.%d:%d", 8+k/60000, 1+(k/250)%250, 1000+k%250) }
		for rep := 0; rep < 2; rep++ {
			for k := total - 25; k < total; k++ {
				c.Steps = append(c.Steps, step{K: "out", Src: "192.168.0.11:4001", Dst: dstOfK(k), Size: 1})
			}
			c.Steps = append(c.Steps, step{K: "out", Src: "192.168.0.13:4003", Dst: "7.7.8.1:3000", Size: 1})
		}
		c.Steps = append(c.Steps, step{K: "out", Src: keep, Dst: keepRem, Size: 8}, step{K: "in", Src: keepRem, Dst: "@0", Size: 4})
		// after the wrap-around: keys whose mappings expired long ago (their ports now belong to later, live mappings) are used
		// again; the live mappings must keep working and fresh allocations must not collide with them
		dstOf := func(k int) string { return fmt.Sprintf("5.6.%d.%d:%d", 8+k/60000, 1+(k/250)%250, 1000+k%250) }
		for k := 0; k < 150; k++ {
			c.Steps = append(c.Steps, step{K: "out", Src: "192.168.0.11:4001", Dst: dstOf(k), Size: 1})
		}
		for k := total - 80; k < total; k++ {
			c.Steps = append(c.Steps, step{K: "in", Src: dstOf(k), Dst: fmt.Sprintf("@%d", 1+k), Size: 2})
		}
		for j := 0; j < 80; j++ {
			c.Steps = append(c.Steps, step{K: "out", Src: "192.168.0.12:4002", Dst: fmt.Sprintf("7.7.7.%d:%d", 1+j%200, 2000+j), Size: 1})
		}
		for k := total - 80; k < total; k += 7 {
			c.Steps = append(c.Steps, step{K: "in", Src: dstOf(k), Dst: fmt.Sprintf("@%d", 1+k), Size: 2})
		}
		return c
	}
	// a third of the NAPT cases: addresses whose text is a prefix of another one (5.6.7.1 / 5.6.7.10 / 5.6.7.100, ports 8 /
	// 80 / 800) on both sides, and in every case a share of the chunks carries its IPv4 addresses in 4-byte form
	if c.Mode == 0 && rng.Intn(3) == 0 {
		alike = true
		ips := []string{"5.6.7.1", "5.6.7.10", "5.6.7.100", "5.6.7.11"}
		ports := []int{8, 80, 800, 8000}
		rems = rems[:0]
		for i := 0; i < nRem; i++ {
			rems = append(rems, fmt.Sprintf("%s:%d", ips[rng.Intn(len(ips))], ports[rng.Intn(len(ports))]))
		}
		strangers = []string{"5.6.7.1:8", "5.6.7.10:80", "5.6.7.1:800", "5.6.7.100:8000", "5.6.7.11:80", "5.6.7.1:80", "5.6.7.10:8"}
		ints = ints[:0]
		for i := 0; i < nInt; i++ {
			ints = append(ints, fmt.Sprintf("192.168.0.%d:%d", []int{1, 10, 100, 11}[i%4], []int{5, 50, 500, 5000}[(i/2)%4]))
		}
	}
	_ = alike
	forms := rng.Intn(3) // 0: all 16-byte (what ResolveUDPAddr yields), 1: mixed per chunk, 2: mostly 4-byte
	form := func() int {
		switch forms {
		case 1:
			return rng.Intn(4)
		case 2:
			if rng.Intn(8) != 0 {
				return 3
			}
		}
		return 0
	}
	n := 50 + rng.Intn(350)
	defer func() {
		for i := range c.Steps {
			if c.Steps[i].K != "adv" {
				c.Steps[i].Form = form()
			}
		}
	}()
	for i := 0; i < n; i++ {
		switch k := rng.Intn(100); {
		case k < 45:
			c.Steps = append(c.Steps, step{K: "out", Src: ints[rng.Intn(len(ints))], Dst: rems[rng.Intn(len(rems))], Size: []int{0, 1, 100, 1200}[rng.Intn(4)]})
		case k < 85:
			src := rems[rng.Intn(len(rems))]
			if rng.Intn(4) == 0 {
				src = strangers[rng.Intn(len(strangers))]
			}
			dst := fmt.Sprintf("@r%d", rng.Intn(4))
			if rng.Intn(4) == 0 {
				dst = fmt.Sprintf("@%d", rng.Intn(1000))
			}
			switch rng.Intn(10) {
			case 0:
				dst = fmt.Sprintf("%s:%d", c.Mapped[0], 49152+rng.Intn(40)) // possibly never allocated
			case 1:
				dst = fmt.Sprintf("%s:%d", c.Mapped[0], 40000)
			case 2:
				dst = "1.2.3.99:49152" // not a router address / unpaired
			case 3:
				if c.Mode == 1 {
					dst = fmt.Sprintf("%s:%d", c.Mapped[rng.Intn(len(c.Mapped))], 5000+rng.Intn(3))
				}
			}
			if c.Mode == 1 && rng.Intn(2) == 0 {
				dst = fmt.Sprintf("%s:%d", c.Mapped[rng.Intn(len(c.Mapped))], 5000+rng.Intn(3))
			}
			c.Steps = append(c.Steps, step{K: "in", Src: src, Dst: dst, Size: []int{0, 1, 100}[rng.Intn(3)]})
		default:
			c.Steps = append(c.Steps, step{K: "adv", Adv: advs()})
		}
	}
	return c
}

func main() {
	prop := flag.String("prop", "C02", "")
	tier := flag.String("tier", "quick", "")
	seed := flag.Int64("seed", 1, "")
	shard := flag.Int("shard", 0, "")
	nshard := flag.Int("nshard", 1, "")
	out := flag.String("out", "", "")
	replay := flag.String("replay", "", "")
	mode := flag.String("mode", "seq", "seq: sequential histories against the reference NAT; conc: concurrent phases with sequential audits")
	flag.Parse()
	_ = nshard
	r := res.New(*prop)
	r.Rule = "histories of outbound / inbound datagrams and virtual-clock advances ({1ns, L-1, L, L+1, 3L, L/2, random}) over 1-7 internal endpoints and 1-8 remotes (+ strangers, same-IP-other-port) for all 3x3 mapping/filtering behaviours, lifetimes {30s, 1s, 50ms}, 1 or 2 router IPs, 1:1 mode with 1-4 pairs, plus exhaustion histories creating more than 16384 mappings (with and without expiry in between) while an earlier flow keeps sending; every translateOutbound/translateInbound answer compared with a reference NAT (mapping table keyed by source + behaviour-dependent part of destination, per-mapping permissions, last-outbound time); distinct = (direction, behaviours, liveness relation, reuse / refusal reason) cells"
	r.Assumptions = []string{"NAT driven in-package through a verif-tagged wrapper on a virtual clock (time.Now in nat.go rewritten by overlay)", "exactly one lifetime of idleness is unconstrained: the model follows the implementation there", "a refused inbound datagram leaves the model unchanged; any effect shows as a later disagreement"}
	report := func(v *verdict, c *ncase) {
		if v.prop == *prop {
			if v.at+1 < len(c.Steps) {
				c.Steps = c.Steps[:v.at+1]
			}
			r.Violate(v.key, v.desc, c)
		} else {
			r.Count("other_property_disagreements", 1)
		}
	}
	if *replay != "" {
		b, _ := os.ReadFile(*replay)
		var w struct {
			Witness ncase `json:"witness"`
		}
		if err := json.Unmarshal(b, &w); err != nil {
			fmt.Fprintln(os.Stderr, err)
			os.Exit(2)
		}
		r.Eval(1)
		if v := runCase(&w.Witness, r); v != nil {
			report(v, &w.Witness)
		}
		r.Write(*out)
		return
	}
	if *mode == "conc" {
		r.Rule = "rounds of sequential set-up, clock advance ({0, L/3, L+1, 2L}), a concurrent phase at a fixed virtual time (3-5 goroutines translating outbound datagrams of 3 endpoints x 3 remotes and inbound datagrams to the addresses the mappings had before the phase, from their remotes and from a stranger) and a sequential audit, for all 3x3 behaviours: all outbound datagrams of one mapping key show one external address during the phase and in the audit (the old one if the mapping was live, one new one if it had expired), live mappings of different keys hold different addresses, the contacted remote is admitted to the owner and a stranger is not; distinct = (behaviours, advance) cells"
		r.Assumptions = []string{"the virtual clock stands still during a concurrent phase, so every mapping is live or expired for the whole phase and the expected answers do not depend on the interleaving"}
		nc := 60
		if *tier == "thorough" {
			nc = 600
		}
		crng := rand.New(rand.NewSource(*seed*911 + int64(*shard)*37 + 5))
		if *replay != "" {
			b, _ := os.ReadFile(*replay)
			var w struct {
				Witness concCase `json:"witness"`
			}
			if err := json.Unmarshal(b, &w); err != nil {
				fmt.Fprintln(os.Stderr, err)
				os.Exit(2)
			}
			for k := 0; k < 50 && r.NViol() == 0; k++ { // the interleaving is not controlled: retry
				r.Eval(1)
				if v := runConc(&w.Witness, *prop, r); v != nil && v.prop == *prop {
					r.Violate(v.key, v.desc, &w.Witness)
				}
			}
			r.Write(*out)
			return
		}
		seenK := map[string]int{}
		for i := 0; i < nc; i++ {
			c := &concCase{MapB: i % 3, FilB: (i / 3) % 3, Rounds: 12, Seed: crng.Int63()}
			r.Eval(1)
			if v := runConc(c, *prop, r); v != nil {
				if v.prop != *prop {
					r.Count("other_property_disagreements", 1)
					continue
				}
				seenK[v.key]++
				if seenK[v.key] <= 2 {
					r.Violate(v.key, v.desc, c)
				}
			}
		}
		r.Write(*out)
		return
	}
	n := 750
	if *tier == "thorough" {
		n = 8000
	}
	rng := rand.New(rand.NewSource(*seed*523 + int64(*shard)*41 + 13))
	seen := map[string]int{}
	for i := 0; i < n; i++ {
		ex := 0
		if i == 5 || (*tier == "thorough" && i%2000 == 7) {
			ex = 1 + (*shard+i)%2
		}
		c := genCase(rng, ex)
		r.Eval(1)
		if ex > 0 {
			r.Count("exhaustion_histories", 1)
		}
		if i == 0 && *shard == 0 {
			s := *c
			if len(s.Steps) > 14 {
				s.Steps = s.Steps[:14]
			}
			r.Sample(s)
		}
		if v := runCase(c, r); v != nil {
			seen[v.key]++
			if seen[v.key] <= 2 {
				report(v, c)
			}
		}
	}
	r.Write(*out)
}
