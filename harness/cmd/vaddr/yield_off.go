//go:build !verifyield

package main

var yieldMode = "race"

func installYield() {}
