//go:build verifyield

package main

import (
	"runtime"
	"time"

	"github.com/pion/transport/v3/vnet"
)

var yieldMode = "race+sync-free-delays"

// delay widens the windows between the synchronisation operations of package vnet (router push / forwarding loop / NIC
// hand-over / NAT / socket queues). No locks, atomics or shared variables: the decision is a hash of the point id and
// the clock, so the callback adds no happens-before edge and cannot hide a race.
func delay(id int) {
	t := uint64(time.Now().UnixNano())
	h := (t ^ uint64(id)*0xBF58476D1CE4E5B9) * 0x9E3779B97F4A7C15
	switch (h >> 40) % 6 {
	case 0:
		runtime.Gosched()
	case 1:
		time.Sleep(time.Duration((h>>50)%120) * time.Microsecond)
	}
}

func installYield() { vnet.VerifYield = delay }
