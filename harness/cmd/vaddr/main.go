// Command vaddr: monitors for vnet address management (C13).
//
//	router part: attach sequences (static / automatic / multi-IP NICs, child routers) against a "held addresses" model
//	host part:   ListenUDP/ListenPacket/DialUDP/Dial/Close histories against a reference bind table, plus delivery probes
package main

import (
	"encoding/json"
	"flag"
	"fmt"
	"math/rand"
	"net"
	"os"
	"strings"
	"sync"
	"time"

	"github.com/pion/transport/v3/vnet"
	"verifharness/internal/gstate"
	"verifharness/internal/res"
	"verifharness/internal/vn"
)

// ---------------- router part ----------------

type attach struct {
	Kind    string   `json:"kind"` // nic | net | router
	Statics []string `json:"statics,omitempty"`
}

type rcase struct {
	CIDR string   `json:"cidr"`
	Seq  []attach `json:"seq"`
}

func nicAddrs(a attach, nic *vnet.VerifNIC, nt *vnet.Net, rt *vnet.Router) []string {
	var addrs []net.Addr
	switch a.Kind {
	case "nic":
		addrs = nic.Addrs()
	case "net":
		ifc, err := nt.InterfaceByName("eth0")
		if err == nil {
			addrs, _ = ifc.Addrs()
		}
	case "router":
		return nil
	}
	var out []string
	for _, x := range addrs {
		if n, ok := x.(*net.IPNet); ok {
			out = append(out, n.IP.String())
		}
	}
	return out
}

func runRouterCase(c *rcase, r *res.Result) (string, string, int) {
	_, ipnet, err := net.ParseCIDR(c.CIDR)
	if err != nil {
		return "", "", 0
	}
	rt, err := vnet.NewRouter(&vnet.RouterConfig{CIDR: c.CIDR, LoggerFactory: vn.Silent()})
	if err != nil {
		return "router:ctor", err.Error(), 0
	}
	held := map[string]int{} // ip -> attach index
	type hostRec struct {
		nic *vnet.VerifNIC
		ips []string
		got map[string]int // probe id -> count
	}
	var mu sync.Mutex
	var hosts []*hostRec
	markerDone := make(chan struct{})
	autoOK := 0
	for i, a := range c.Seq {
		var nic *vnet.VerifNIC
		var nt *vnet.Net
		var child *vnet.Router
		var aerr error
		var statics []net.IP
		for _, s := range a.Statics {
			statics = append(statics, net.ParseIP(s).To4())
		}
		hr := &hostRec{got: map[string]int{}}
		skip := false
		inside := 0
		for _, st := range a.Statics {
			if _, dup := held[st]; dup {
				skip = true // the user would be supplying an address that is already in use: outside the statement
			}
			if ipnet.Contains(net.ParseIP(st)) {
				inside++
			}
		}
		if len(a.Statics) > 1 && inside != len(a.Statics) {
			skip = true // a multi-IP NIC that fails half way leaves the first addresses registered: not constrained
		}
		if skip {
			r.Count("attaches_skipped_precondition", 1)
			continue
		}
		switch a.Kind {
		case "nic":
			nic = &vnet.VerifNIC{StaticIPs: statics}
			nic.OnChunk = func(ch vnet.Chunk) {
				if string(ch.UserData()) == "marker" {
					close(markerDone)
					return
				}
				mu.Lock()
				hr.got[string(ch.UserData())+"@"+ch.DestinationAddr().String()]++
				mu.Unlock()
			}
			hr.nic = nic
			aerr = rt.AddNet(nic)
		case "net":
			nt, err = vnet.NewNet(&vnet.NetConfig{StaticIPs: a.Statics})
			if err != nil {
				return "router:ctor", err.Error(), i
			}
			aerr = rt.AddNet(nt)
		case "router":
			child, err = vnet.NewRouter(&vnet.RouterConfig{CIDR: "192.168.0.0/24", StaticIPs: a.Statics, LoggerFactory: vn.Silent()})
			if err != nil {
				return "router:ctor", err.Error(), i
			}
			aerr = rt.AddRouter(child)
		}
		r.Count("attaches", 1)
		auto := len(a.Statics) == 0
		if aerr != nil {
			r.Count("attach_errors", 1)
			if auto {
				r.Count("auto_attach_errors", 1)
			}
			// an error is acceptable when: static outside the subnet, or automatic assignment has no in-subnet free address left
			if !auto {
				in := true
				for _, ip := range statics {
					if !ipnet.Contains(ip) {
						in = false
					}
				}
				if in {
					return "router:static-refused", fmt.Sprintf("attach %d: static %v inside %s refused: %v", i, a.Statics, c.CIDR, aerr), i
				}
			} else if autoOK+0 < 1 && false {
				_ = autoOK
			}
			continue
		}
		if a.Kind == "router" {
			// a child router's WAN addresses are not readable through the public API unless static
			if auto {
				r.Count("auto_child_routers_unobservable", 1)
				continue
			}
			for _, s := range a.Statics {
				held[s] = i
			}
			continue
		}
		ips := nicAddrs(a, nic, nt, nil)
		if auto {
			if len(ips) != 1 {
				return "router:auto-count", fmt.Sprintf("attach %d: automatic assignment produced addresses %v", i, ips), i
			}
			ip := ips[0]
			r.Count("auto_assigned", 1)
			autoOK++
			if j, dup := held[ip]; dup {
				return "router:auto-duplicate", fmt.Sprintf("attach %d: automatic assignment handed out %s which attach %d (%v) already holds", i, ip, j, c.Seq[j]), i
			}
			if !ipnet.Contains(net.ParseIP(ip)) {
				return "router:auto-outside-subnet", fmt.Sprintf("attach %d: automatic address %s is outside %s and no error was reported", i, ip, c.CIDR), i
			}
			held[ip] = i
			if len(held) > 1 {
				r.DistinctKey(fmt.Sprintf("auto after statics-in-range=%v n=%d", staticsBelow(held, c.Seq), autoOK/16))
			}
		} else {
			for _, s := range a.Statics {
				if !ipnet.Contains(net.ParseIP(s)) {
					return "router:static-outside-accepted", fmt.Sprintf("attach %d: static %s outside %s accepted without error", i, s, c.CIDR), i
				}
				held[s] = i
			}
			r.Count("static_assigned", int64(len(a.Statics)))
		}
		hr.ips = ips
		if nic != nil {
			hosts = append(hosts, hr)
		}
	}
	r.Max("max_nics_on_a_router", int64(len(c.Seq)))
	r.Max("max_auto_assigned_on_a_router", int64(autoOK))
	if autoOK > 254 {
		return "router:auto-more-than-254", fmt.Sprintf("%d automatic addresses handed out", autoOK), len(c.Seq)
	}
	// delivery probe: one datagram to every held address of a recording NIC must reach exactly that NIC
	if len(hosts) >= 2 {
		if err := rt.Start(); err != nil {
			return "router:start", err.Error(), len(c.Seq)
		}
		src := hosts[0]
		sip := src.ips[0]
		n := 0
		for hi, h := range hosts {
			for _, ip := range h.ips {
				if n > 400 {
					break
				}
				n++
				ch := vnet.VerifNewChunkUDP(vn.UDP(sip, 1234), vn.UDP(ip, 4321), []byte(fmt.Sprintf("probe-%d-%s", hi, ip)))
				src.nic.Send(ch)
			}
		}
		// flush marker: the router drains one FIFO in one goroutine
		done := markerDone
		src.nic.Send(vnet.VerifNewChunkUDP(vn.UDP(sip, 1234), vn.UDP(sip, 9), []byte("marker")))
		select {
		case <-done:
		case <-time.After(20 * time.Second):
			_ = rt.Stop()
			return "", "inconclusive: flush marker did not return", 0
		}
		_ = rt.Stop()
		mu.Lock()
		defer mu.Unlock()
		n = 0
		for hi, h := range hosts {
			for _, ip := range h.ips {
				if n > 400 {
					break
				}
				n++
				key := fmt.Sprintf("probe-%d-%s@%s:4321", hi, ip, ip)
				for hj, h2 := range hosts {
					cnt := h2.got[key]
					if hj == hi && cnt != 1 {
						return "router:probe-not-delivered", fmt.Sprintf("datagram to %s (held by NIC %d) was delivered %d times to its NIC", ip, hi, cnt), len(c.Seq)
					}
					if hj != hi && cnt != 0 {
						return "router:probe-misdelivered", fmt.Sprintf("datagram to %s (held by NIC %d) was delivered to NIC %d", ip, hi, hj), len(c.Seq)
					}
				}
				r.Count("delivery_probes", 1)
			}
		}
	}
	return "", "", 0
}

func staticsBelow(held map[string]int, seq []attach) bool {
	for ip, i := range held {
		if len(seq[i].Statics) > 0 {
			p := net.ParseIP(ip).To4()
			if p != nil && p[3] >= 1 && p[3] < 40 {
				return true
			}
		}
	}
	return false
}

func genRouterCase(rng *rand.Rand, bigOK bool) *rcase {
	c := &rcase{}
	c.CIDR = []string{"10.0.0.0/24", "10.0.0.0/24", "172.16.0.0/16", "192.168.7.0/28", "10.1.2.0/24"}[rng.Intn(5)]
	_, ipnet, _ := net.ParseCIDR(c.CIDR)
	base := ipnet.IP.To4()
	n := 2 + rng.Intn(30)
	if bigOK && rng.Intn(6) == 0 {
		n = 250 + rng.Intn(60)
	}
	used := map[string]bool{}
	pStatic := []int{0, 10, 30, 60}[rng.Intn(4)]
	for i := 0; i < n; i++ {
		a := attach{Kind: "nic"}
		switch k := rng.Intn(100); {
		case k < 20:
			a.Kind = "net"
		case k < 24 && n < 100:
			a.Kind = "router"
		}
		if rng.Intn(100) < pStatic || (a.Kind == "router" && rng.Intn(3) > 0) {
			k := 1
			if rng.Intn(5) == 0 {
				k = 2 + rng.Intn(2)
			}
			for j := 0; j < k; j++ {
				var ip net.IP
				for tries := 0; tries < 50; tries++ {
					ip = net.IPv4(base[0], base[1], base[2], 0).To4()
					switch rng.Intn(10) {
					case 0, 1, 2, 3, 4: // inside the automatic range, low numbers
						ip[3] = byte(1 + rng.Intn(20))
					case 5:
						ip[3] = byte(1 + rng.Intn(254))
					case 6:
						ip[3] = 254
					case 7:
						if ones, _ := ipnet.Mask.Size(); ones == 16 {
							ip[2] = byte(1 + rng.Intn(200))
						}
						ip[3] = byte(1 + rng.Intn(254))
					case 8:
						ip[3] = byte(1 + rng.Intn(14))
					default: // outside the subnet (single-IP only)
						if k == 1 {
							ip = net.IPv4(11, 0, 0, byte(1+rng.Intn(200))).To4()
						} else {
							ip[3] = byte(1 + rng.Intn(14))
						}
					}
					if !used[ip.String()] {
						break
					}
					ip = nil
				}
				if ip == nil {
					continue
				}
				used[ip.String()] = true
				a.Statics = append(a.Statics, ip.String())
			}
		}
		c.Seq = append(c.Seq, a)
	}
	return c
}

// ---------------- host part ----------------

type hop struct {
	K    string `json:"k"` // listenudp listenpacket dialudp dial close reclose probe
	IP   string `json:"ip,omitempty"`
	Port int    `json:"port,omitempty"`
	Sock int    `json:"sock,omitempty"` // close: index into open sockets (mod len)
	Rem  string `json:"rem,omitempty"`
}

type hcase struct {
	IPs []string `json:"ips"`
	Ops []hop    `json:"ops"`
	// Early: sockets used on the host before it is attached to its router (1: loopback bind with port 0, 2: wildcard bind
	// with port 0, 3: both), closed again before the attachment. Whatever the host learned about itself then must not
	// outlive the attachment: afterwards its interface addresses are its own.
	Early int `json:"early,omitempty"`
}

type msock struct {
	ip   string // "0.0.0.0" for wildcard
	port int
	conn net.PacketConn
	rem  string
	mu   sync.Mutex
	log  map[string]int
	goid int64
	done chan struct{}
}

func covers(s *msock, ip string, port int) bool {
	return s.port == port && (s.ip == "0.0.0.0" || s.ip == ip)
}

func (s *msock) reader() {
	s.goid = gstate.GoID()
	close(s.done)
	buf := make([]byte, 2000)
	for {
		n, from, err := s.conn.ReadFrom(buf)
		if err != nil {
			return
		}
		s.mu.Lock()
		s.log[string(buf[:n])+"<"+from.String()]++
		s.mu.Unlock()
	}
}

func runHostCase(c *hcase, r *res.Result) (string, string, int) {
	rt, err := vnet.NewRouter(&vnet.RouterConfig{CIDR: "10.5.0.0/16", LoggerFactory: vn.Silent()})
	if err != nil {
		return "host:ctor", err.Error(), 0
	}
	h, _ := vnet.NewNet(&vnet.NetConfig{StaticIPs: c.IPs})
	peer, _ := vnet.NewNet(&vnet.NetConfig{StaticIPs: []string{"10.5.200.1"}})
	for k, a := range []string{"127.0.0.1:0", "0.0.0.0:0"} {
		if c.Early&(1<<k) == 0 {
			continue
		}
		if ec, err := h.ListenPacket("udp", a); err == nil {
			ec.Close()
			r.Count("binds_before_attachment", 1)
		}
	}
	if err := rt.AddNet(h); err != nil {
		return "host:ctor", err.Error(), 0
	}
	if err := rt.AddNet(peer); err != nil {
		return "host:ctor", err.Error(), 0
	}
	if err := rt.Start(); err != nil {
		return "host:ctor", err.Error(), 0
	}
	defer rt.Stop() //nolint
	pc, err := peer.ListenUDP("udp", vn.UDP("10.5.200.1", 7000))
	if err != nil {
		return "host:ctor", err.Error(), 0
	}
	peerMarks := make(chan string, 16)
	go func() {
		buf := make([]byte, 100)
		for {
			n, _, err := pc.ReadFrom(buf)
			if err != nil {
				return
			}
			peerMarks <- string(buf[:n])
		}
	}()
	defer pc.Close()
	own := map[string]bool{"127.0.0.1": true}
	for _, ip := range c.IPs {
		own[ip] = true
	}
	var open, closed []*msock
	defer func() {
		for _, s := range open {
			s.conn.Close()
		}
	}()
	conflict := func(ip string, port int) bool {
		for _, s := range open {
			if s.port == port && (s.ip == "0.0.0.0" || ip == "0.0.0.0" || s.ip == ip) {
				return true
			}
		}
		return false
	}
	probeN := 0
	for i, o := range c.Ops {
		switch o.K {
		case "listenudp", "listenpacket", "dialudp", "dial":
			ip, port := o.IP, o.Port
			var conn net.PacketConn
			var err error
			rem := ""
			switch o.K {
			case "listenudp":
				conn, err = h.ListenUDP("udp", vn.UDP(ip, port))
			case "listenpacket":
				conn, err = h.ListenPacket("udp", fmt.Sprintf("%s:%d", ip, port))
			case "dialudp":
				rem = o.Rem
				ra, _ := net.ResolveUDPAddr("udp", o.Rem)
				var c2 net.Conn
				if ip == "" {
					c2, err = h.DialUDP("udp", nil, ra)
					ip, port = "0.0.0.0", 0
				} else {
					c2, err = h.DialUDP("udp", vn.UDP(ip, port), ra)
				}
				if err == nil {
					conn = c2.(net.PacketConn)
				}
			case "dial":
				rem = o.Rem
				var c2 net.Conn
				c2, err = h.Dial("udp", o.Rem)
				if strings.HasPrefix(o.Rem, "127.") {
					ip = "127.0.0.1"
				} else {
					ip = c.IPs[0]
				}
				port = 0
				if err == nil {
					conn = c2.(net.PacketConn)
				}
			}
			r.Count("binds", 1)
			owned := ip == "0.0.0.0" || own[ip]
			var wantOK bool
			switch {
			case !owned:
				wantOK = false
				r.Count("binds_foreign_ip", 1)
			case port != 0:
				wantOK = !conflict(ip, port)
				if !wantOK {
					r.Count("binds_conflicting", 1)
				}
			default:
				free := 0
				for p := 5000; p <= 5999; p++ {
					if !conflict(ip, p) {
						free++
					}
				}
				wantOK = free > 0
				if !wantOK {
					r.Count("binds_port_space_exhausted", 1)
				}
			}
			r.DistinctKey(fmt.Sprintf("%s ip=%s port0=%v want=%v open=%d", o.K, ipClass(ip), port == 0, wantOK, len(open)/4))
			if (err == nil) != wantOK {
				if err == nil {
					conn.Close()
				}
				return "host:bind-" + map[bool]string{true: "refused", false: "accepted"}[wantOK], fmt.Sprintf("op %d: %s %s:%d err=%v, reference bind table says ok=%v (open: %s)", i, o.K, ip, port, err, wantOK, descOpen(open)), i
			}
			if err != nil {
				continue
			}
			la := conn.LocalAddr().(*net.UDPAddr)
			if port == 0 {
				r.Count("binds_ephemeral", 1)
				if la.Port < 5000 || la.Port > 5999 {
					conn.Close()
					return "host:ephemeral-range", fmt.Sprintf("op %d: port 0 bound to %d", i, la.Port), i
				}
				if conflict(ip, la.Port) {
					conn.Close()
					return "host:ephemeral-in-use", fmt.Sprintf("op %d: port 0 on %s picked %d which is already covered (open: %s)", i, ip, la.Port, descOpen(open)), i
				}
				port = la.Port
			} else if la.Port != port {
				conn.Close()
				return "host:wrong-port", fmt.Sprintf("op %d: bound port %d, asked %d", i, la.Port, port), i
			}
			if la.IP.String() != ip {
				conn.Close()
				return "host:wrong-ip", fmt.Sprintf("op %d: bound IP %s, asked %s", i, la.IP, ip), i
			}
			s := &msock{ip: ip, port: port, conn: conn, rem: rem, log: map[string]int{}, done: make(chan struct{})}
			go s.reader()
			<-s.done
			open = append(open, s)
			r.Max("max_open_sockets", int64(len(open)))
		case "close":
			if len(open) == 0 {
				continue
			}
			k := o.Sock % len(open)
			if err := open[k].conn.Close(); err != nil {
				return "host:close-error", fmt.Sprintf("op %d: Close: %v", i, err), i
			}
			closed = append(closed, open[k])
			open = append(open[:k], open[k+1:]...)
			r.Count("closes", 1)
		case "reclose":
			// Close on a handle that is already closed: whatever it returns, it must not touch the address,
			// which may meanwhile belong to another open socket (the model is left unchanged)
			if len(closed) == 0 {
				continue
			}
			old := closed[o.Sock%len(closed)]
			_ = old.conn.Close()
			r.Count("closes_of_closed_handles", 1)
			for _, s := range open {
				if s.port == old.port && (s.ip == old.ip || s.ip == "0.0.0.0" || old.ip == "0.0.0.0") {
					r.Count("closes_of_closed_handles_with_address_in_use_again", 1)
					break
				}
			}
		case "probe":
			// a datagram to (ip,port): loopback from a socket of the host itself, otherwise from the peer through the router
			probeN++
			payload := fmt.Sprintf("p%d", probeN)
			var target *msock
			for _, s := range open {
				if covers(s, o.IP, o.Port) {
					target = s
				}
			}
			var from string
			if o.IP == "127.0.0.1" {
				if len(open) == 0 {
					continue
				}
				snd := open[o.Sock%len(open)]
				if snd.ip != "0.0.0.0" && snd.ip != "127.0.0.1" {
					continue // a socket bound to an eth0 address does not source loopback traffic here
				}
				if _, err := snd.conn.WriteTo([]byte(payload), vn.UDP(o.IP, o.Port)); err != nil {
					return "host:probe-write", fmt.Sprintf("op %d: WriteTo: %v", i, err), i
				}
				from = fmt.Sprintf("127.0.0.1:%d", snd.port)
			} else {
				if !own[o.IP] {
					continue
				}
				if _, err := pc.WriteTo([]byte(payload), vn.UDP(o.IP, o.Port)); err != nil {
					return "host:probe-write", fmt.Sprintf("op %d: WriteTo: %v", i, err), i
				}
				// flush marker through the same router queue
				mk := fmt.Sprintf("m%d", probeN)
				if _, err := pc.WriteTo([]byte(mk), vn.UDP("10.5.200.1", 7000)); err != nil {
					return "host:probe-write", err.Error(), i
				}
				select {
				case <-peerMarks:
				case <-time.After(10 * time.Second):
					// the marker is a datagram the peer's socket sends to its own address through the router; its socket is
					// open and covers that address. If the router's forwarding goroutine is parked (three samples) the
					// datagram is not on its way any more: it was lost
					parked := 0
					for k := 0; k < 3; k++ {
						for _, g := range gstate.Snapshot() {
							if g.Has("vnet.(*Router).Start.func1") && gstate.Blocked(g.State) {
								parked++
								break
							}
						}
						time.Sleep(2 * time.Millisecond)
					}
					if parked == 3 {
						return "host:probe-lost", fmt.Sprintf("op %d: a datagram that the peer's socket (10.5.200.1:7000) sent to its own address through the router never arrived although the socket is open and the router is idle", i), i
					}
					return "", "inconclusive: flush marker did not return", i
				}
				from = "10.5.200.1:7000"
			}
			key := payload + "<" + from
			if target != nil && target.rem != "" && target.rem != from {
				target = nil // connected socket discards other sources
			}
			// the datagram now sits in some socket queue or nowhere: wait until every reader is parked (queues drained)
			if !settle(open) {
				return "", "inconclusive: readers did not park", i
			}
			for _, s := range open {
				s.mu.Lock()
				cnt := s.log[key]
				s.mu.Unlock()
				switch {
				case s == target && cnt == 0:
					dbg := ""
					for _, s2 := range open {
						s2.mu.Lock()
						for k := range s2.log {
							if strings.HasPrefix(k, payload+"<") {
								dbg += fmt.Sprintf(" [%s:%d got %q]", s2.ip, s2.port, k)
							}
						}
						s2.mu.Unlock()
					}
					return "host:probe-lost", fmt.Sprintf("op %d: datagram %q to %s:%d (expected source %s) did not reach the open socket %s:%d (connected to %q) that covers it;%s open: %s", i, payload, o.IP, o.Port, from, s.ip, s.port, s.rem, dbg, descOpen(open)), i
				case s == target && cnt > 1:
					return "host:probe-duplicated", fmt.Sprintf("op %d: datagram to %s:%d read %d times", i, o.IP, o.Port, cnt), i
				case s != target && cnt > 0:
					return "host:probe-misdelivered", fmt.Sprintf("op %d: datagram to %s:%d was read from socket %s:%d which does not cover it", i, o.IP, o.Port, s.ip, s.port), i
				}
			}
			if target != nil {
				r.Count("probes_delivered", 1)
			} else {
				r.Count("probes_to_uncovered_address", 1)
			}
		}
	}
	return "", "", 0
}

// settle waits until every reader goroutine is parked in ReadFrom (two consecutive snapshots): all socket queues are drained.
func settle(open []*msock) bool {
	t0 := time.Now()
	okRuns := 0
	for {
		st := map[int64]bool{}
		for _, g := range gstate.Snapshot() {
			if gstate.Blocked(g.State) && g.Has("vnet.(*UDPConn).ReadFrom") {
				st[g.ID] = true
			}
		}
		all := true
		for _, s := range open {
			if !st[s.goid] {
				all = false
			}
		}
		if all {
			okRuns++
			if okRuns >= 2 {
				return true
			}
		} else {
			okRuns = 0
		}
		if time.Since(t0) > 10*time.Second {
			return false
		}
	}
}

func ipClass(ip string) string {
	switch {
	case ip == "0.0.0.0":
		return "*"
	case ip == "127.0.0.1":
		return "lo"
	case strings.HasPrefix(ip, "10.5."):
		return "own"
	}
	return "foreign"
}

func descOpen(open []*msock) string {
	var s []string
	for _, o := range open {
		s = append(s, fmt.Sprintf("%s:%d", o.ip, o.port))
		if len(s) > 12 {
			s = append(s, "...")
			break
		}
	}
	return strings.Join(s, " ")
}

func genHostCase(rng *rand.Rand, fill bool) *hcase {
	c := &hcase{}
	nip := 1 + rng.Intn(3)
	for i := 0; i < nip; i++ {
		c.IPs = append(c.IPs, fmt.Sprintf("10.5.%d.%d", 1+i, 1+rng.Intn(200)))
	}
	ips := append([]string{"0.0.0.0", "127.0.0.1", "10.9.9.9"}, c.IPs...)
	ports := []int{0, 0, 0, 4000, 4000, 4001, 5000, 5001, 5999, 6000}
	n := 20 + rng.Intn(180)
	if fill {
		// fill the whole ephemeral range on one IP (and see the failure), then free one
		ip := ips[rng.Intn(len(ips)-3)+3]
		if rng.Intn(2) == 0 {
			ip = "0.0.0.0"
		}
		for i := 0; i < 1003; i++ {
			c.Ops = append(c.Ops, hop{K: "listenudp", IP: ip, Port: 0})
		}
		c.Ops = append(c.Ops, hop{K: "close", Sock: rng.Intn(1000)}, hop{K: "listenudp", IP: ip, Port: 0}, hop{K: "listenudp", IP: ip, Port: 0})
		n = 30
	}
	defer func() {
		if rng.Intn(2) == 0 {
			c.Early = 1 + rng.Intn(3)
		}
	}()
	for i := 0; i < n; i++ {
		ip := ips[rng.Intn(len(ips))]
		port := ports[rng.Intn(len(ports))]
		switch k := rng.Intn(100); {
		case k < 25:
			c.Ops = append(c.Ops, hop{K: "listenudp", IP: ip, Port: port})
		case k < 40:
			c.Ops = append(c.Ops, hop{K: "listenpacket", IP: ip, Port: port})
		case k < 50:
			o := hop{K: "dialudp", IP: ip, Port: port, Rem: "10.5.200.1:7000"}
			if rng.Intn(4) == 0 {
				o.IP, o.Port = "", 0
			}
			c.Ops = append(c.Ops, o)
		case k < 56:
			c.Ops = append(c.Ops, hop{K: "dial", Rem: []string{"10.5.200.1:7000", "127.0.0.1:4000"}[rng.Intn(2)]})
		case k < 72:
			c.Ops = append(c.Ops, hop{K: "close", Sock: rng.Intn(1000)})
		case k < 78:
			c.Ops = append(c.Ops, hop{K: "reclose", Sock: rng.Intn(1000)})
		default:
			pip := ips[rng.Intn(len(ips))]
			if pip == "0.0.0.0" || pip == "10.9.9.9" {
				pip = c.IPs[0]
			}
			c.Ops = append(c.Ops, hop{K: "probe", IP: pip, Port: ports[3+rng.Intn(len(ports)-3)], Sock: rng.Intn(1000)})
		}
	}
	return c
}

func main() {
	tier := flag.String("tier", "quick", "")
	seed := flag.Int64("seed", 1, "")
	shard := flag.Int("shard", 0, "")
	nshard := flag.Int("nshard", 1, "")
	out := flag.String("out", "", "")
	replay := flag.String("replay", "", "")
	concOnly := flag.Bool("conconly", false, "run only the concurrent part (used by the build with delays at vnet's synchronisation points)")
	flag.Parse()
	_ = nshard
	r := res.New("C13")
	r.Rule = "router part: attach sequences (recording NICs, vnet.Net hosts, child routers; distinct static addresses many of them inside the automatic range .1.., some outside the subnet, multi-IP, automatic; up to 310 NICs; /24 /16 /28) against a held-address map, then one probe datagram to every held address; host part: ListenUDP/ListenPacket/DialUDP/Dial/Close histories (specific, wildcard, loopback, foreign IPs; specific and zero ports; thorough fills all 1000 ephemeral ports) against a reference bind table, probe datagrams (loopback and through the router) must reach exactly the covering socket (reader parked = state predicate); distinct = (operation, ip class, port0, expected answer, open-socket bucket) cells + auto-after-static cells"
	r.Assumptions = []string{"user-supplied duplicate static addresses are outside the statement (generator keeps statics distinct)", "a child router's automatically assigned WAN address is not observable through the public API and is not checked"}
	if *replay != "" {
		b, _ := os.ReadFile(*replay)
		var w struct {
			Key     string          `json:"key"`
			Witness json.RawMessage `json:"witness"`
		}
		if err := json.Unmarshal(b, &w); err != nil {
			fmt.Fprintln(os.Stderr, err)
			os.Exit(2)
		}
		r.Eval(1)
		if strings.HasPrefix(w.Key, "router:") {
			var c rcase
			json.Unmarshal(w.Witness, &c)
			if k, d, _ := runRouterCase(&c, r); k != "" {
				r.Violate(k, d, &c)
			}
		} else {
			var c hcase
			json.Unmarshal(w.Witness, &c)
			if k, d, _ := runHostCase(&c, r); k != "" {
				r.Violate(k, d, &c)
			}
		}
		r.Write(*out)
		return
	}
	nr, nh := 375, 120
	if *tier == "thorough" {
		nr, nh = 4000, 1500
	}
	if *concOnly {
		nr = 0
	}
	rng := rand.New(rand.NewSource(*seed*419 + int64(*shard)*37 + 11))
	seen := map[string]int{}
	for i := 0; i < nr; i++ {
		c := genRouterCase(rng, true)
		r.Eval(1)
		k, d, at := runRouterCase(c, r)
		if k == "" && d != "" {
			r.Inconc(d)
		}
		if k != "" {
			seen[k]++
			if seen[k] <= 2 {
				if at+1 < len(c.Seq) {
					c.Seq = c.Seq[:at+1]
				}
				r.Violate(k, d, c)
			}
		}
		if i == 0 && *shard == 0 {
			s := *c
			if len(s.Seq) > 10 {
				s.Seq = s.Seq[:10]
			}
			r.Sample(s)
		}
	}
	installYield()
	r.Count("runs_in_mode_"+yieldMode, 1)
	nconc := nh/4 + 1
	if *concOnly {
		nconc = nh
	}
	for i := 0; i < nconc; i++ {
		r.Eval(1)
		if k, d := runConcAddr(rng, r); k != "" {
			seen[k]++
			if seen[k] <= 2 {
				r.Violate(k, d, map[string]interface{}{"phase": "concurrent", "iteration": i})
			}
		}
	}
	if *concOnly {
		r.Write(*out)
		return
	}
	for i := 0; i < nh; i++ {
		if seen["host:probe-lost"] >= 3 {
			break // every further case would wait for its lost marker as well; three witnesses are enough
		}
		c := genHostCase(rng, *tier == "thorough" && i%100 == 7 || *tier == "quick" && i == 7 && *shard == 0)
		r.Eval(1)
		k, d, at := runHostCase(c, r)
		if k == "" && d != "" {
			r.Inconc(d)
		}
		if k != "" {
			seen[k]++
			if seen[k] <= 2 {
				if at+1 < len(c.Ops) {
					c.Ops = c.Ops[:at+1]
				}
				r.Violate(k, d, c)
			}
		}
		if i == 0 && *shard == 0 {
			s := *c
			if len(s.Ops) > 12 {
				s.Ops = s.Ops[:12]
			}
			r.Sample(s)
		}
	}
	r.Write(*out)
}
