package main

// Concurrent part of the address monitor (C13). The expected outcomes do not depend on the interleaving:
//   - k goroutines bind the very same address of a host at the same time: exactly one succeeds, and a datagram to that
//     address reaches the winner; after the winner is closed the address can be bound again;
//   - k goroutines bind port 0 on the same IP (or the wildcard) at the same time: all succeed with pairwise different
//     ports in 5000-5999;
//   - k goroutines attach NICs without a static address to one router at the same time: all get pairwise different
//     addresses inside the subnet, different from the static ones attached before.

import (
	"fmt"
	"math/rand"
	"net"
	"sync"

	"github.com/pion/transport/v3/vnet"
	"verifharness/internal/res"
	"verifharness/internal/vn"
)

func runConcAddr(rng *rand.Rand, r *res.Result) (string, string) {
	rt, err := vnet.NewRouter(&vnet.RouterConfig{CIDR: "10.6.0.0/24", LoggerFactory: vn.Silent()})
	if err != nil {
		return "conc:ctor", err.Error()
	}
	h, _ := vnet.NewNet(&vnet.NetConfig{StaticIPs: []string{"10.6.0.10", "10.6.0.11"}})
	if err := rt.AddNet(h); err != nil {
		return "conc:ctor", err.Error()
	}
	if err := rt.Start(); err != nil {
		return "conc:ctor", err.Error()
	}
	defer rt.Stop() //nolint
	// 1. same address from k goroutines
	for round := 0; round < 6; round++ {
		ip := []string{"10.6.0.10", "10.6.0.11", "0.0.0.0", "127.0.0.1"}[rng.Intn(4)]
		port := 4000 + rng.Intn(3)
		k := 2 + rng.Intn(5)
		conns := make([]net.PacketConn, k)
		errs := make([]error, k)
		var wg sync.WaitGroup
		start := make(chan struct{})
		for g := 0; g < k; g++ {
			wg.Add(1)
			go func(g int) {
				defer wg.Done()
				<-start
				if g%2 == 0 {
					conns[g], errs[g] = h.ListenUDP("udp", vn.UDP(ip, port))
				} else {
					conns[g], errs[g] = h.ListenPacket("udp", fmt.Sprintf("%s:%d", ip, port))
				}
			}(g)
		}
		close(start)
		wg.Wait()
		won := 0
		for g := 0; g < k; g++ {
			if errs[g] == nil && conns[g] != nil {
				won++
			}
		}
		r.Count("concurrent_same_address_binds", int64(k))
		for g := 0; g < k; g++ {
			if errs[g] == nil && conns[g] != nil {
				conns[g].Close()
			}
		}
		if won != 1 {
			return "conc:same-address", fmt.Sprintf("%d goroutines bound %s:%d at the same time and %d of them succeeded (exactly one must)", k, ip, port, won)
		}
		c2, err := h.ListenUDP("udp", vn.UDP(ip, port))
		if err != nil {
			return "conc:not-freed", fmt.Sprintf("%s:%d cannot be bound after the only socket on it was closed: %v", ip, port, err)
		}
		c2.Close()
	}
	// 2. port 0 from k goroutines
	{
		ip := []string{"10.6.0.10", "0.0.0.0", "127.0.0.1"}[rng.Intn(3)]
		k := 4 + rng.Intn(12)
		conns := make([]net.PacketConn, k)
		errs := make([]error, k)
		var wg sync.WaitGroup
		start := make(chan struct{})
		for g := 0; g < k; g++ {
			wg.Add(1)
			go func(g int) {
				defer wg.Done()
				<-start
				conns[g], errs[g] = h.ListenUDP("udp", vn.UDP(ip, 0))
			}(g)
		}
		close(start)
		wg.Wait()
		ports := map[int]int{}
		r.Count("concurrent_ephemeral_binds", int64(k))
		defer func() {
			for _, c := range conns {
				if c != nil {
					c.Close()
				}
			}
		}()
		for g := 0; g < k; g++ {
			if errs[g] != nil {
				return "conc:ephemeral-refused", fmt.Sprintf("%d goroutines bound %s:0 at the same time, one got %v although 1000 ports are free", k, ip, errs[g])
			}
			p := conns[g].LocalAddr().(*net.UDPAddr).Port
			if p < 5000 || p > 5999 {
				return "conc:ephemeral-range", fmt.Sprintf("port 0 on %s was given port %d", ip, p)
			}
			if o, dup := ports[p]; dup {
				return "conc:ephemeral-shared", fmt.Sprintf("%d goroutines bound %s:0 at the same time, goroutines %d and %d both got port %d", k, ip, o, g, p)
			}
			ports[p] = g
		}
	}
	// 3. automatic addresses for NICs attached at the same time
	{
		k := 3 + rng.Intn(10)
		nets := make([]*vnet.Net, k)
		errs := make([]error, k)
		var wg sync.WaitGroup
		start := make(chan struct{})
		for g := 0; g < k; g++ {
			nets[g], _ = vnet.NewNet(&vnet.NetConfig{})
			wg.Add(1)
			go func(g int) {
				defer wg.Done()
				<-start
				errs[g] = rt.AddNet(nets[g])
			}(g)
		}
		close(start)
		wg.Wait()
		r.Count("concurrent_attachments", int64(k))
		held := map[string]int{"10.6.0.10": -1, "10.6.0.11": -1}
		_, sub, _ := net.ParseCIDR("10.6.0.0/24")
		for g := 0; g < k; g++ {
			if errs[g] != nil {
				return "conc:attach-failed", fmt.Sprintf("attaching %d NICs at the same time: %v", k, errs[g])
			}
			ifc, err := nets[g].InterfaceByName("eth0")
			if err != nil {
				return "conc:attach-failed", err.Error()
			}
			addrs, _ := ifc.Addrs()
			n := 0
			for _, a := range addrs {
				ipn, ok := a.(*net.IPNet)
				if !ok {
					continue
				}
				n++
				if !sub.Contains(ipn.IP) {
					return "conc:auto-outside-subnet", fmt.Sprintf("automatic address %s is outside 10.6.0.0/24", ipn.IP)
				}
				if o, dup := held[ipn.IP.String()]; dup {
					return "conc:auto-duplicate", fmt.Sprintf("%d NICs were attached at the same time; address %s was handed out although NIC %d holds it", k, ipn.IP, o)
				}
				held[ipn.IP.String()] = g
			}
			if n == 0 {
				return "conc:attach-failed", "a NIC attached without a static address got no address"
			}
		}
	}
	return "", ""
}
