// Command replay: reference-model monitors for the replay detectors (C04, C05).
//
// C04 oracle: the set of accepted numbers (a Go map keyed by lap+number) — independent of any bit mask.
// C05 oracle: the full sliding-window rule computed from the property statement.
package main

import (
	"encoding/json"
	"flag"
	"fmt"
	"math/rand"
	"os"

	"github.com/pion/transport/v3/replaydetector"
	"verifharness/internal/res"
)

type step struct {
	Seq    uint64 `json:"seq"`
	Accept bool   `json:"accept"`          // invoke the callback when the check succeeds
	Defer  int    `json:"defer,omitempty"` // C04: invoke the callback only after this many further steps (0 = at once)
}

type history struct {
	Wrap   bool   `json:"wrap"`
	Window uint   `json:"window"`
	Max    uint64 `json:"max"`
	Steps  []step `json:"steps"`
}

type vkey struct {
	lap int64
	s   uint64
}

// model is the reference state shared by both oracles.
type model struct {
	wrap     bool
	window   uint64
	max      uint64
	n        uint64 // max+1 (wrap only; max < 2^63 there)
	accepted map[vkey]struct{}
	newest   uint64
	lap      int64
	any      bool
}

func newModel(h *history) *model {
	return &model{wrap: h.Wrap, window: uint64(h.Window), max: h.Max, n: h.Max + 1, accepted: map[vkey]struct{}{}}
}

func (m *model) ahead(seq uint64) uint64 { // (seq - newest) mod n
	if seq >= m.newest {
		return seq - m.newest
	}
	return m.n - (m.newest - seq)
}

func (m *model) keyOf(seq uint64) vkey {
	if !m.wrap || seq <= m.newest {
		return vkey{m.lap, seq}
	}
	return vkey{m.lap - 1, seq}
}

// boundary reports whether seq is one of the two numbers nearest the half-space boundary.
func (m *model) boundary(seq uint64) bool {
	if !m.wrap || !m.any {
		return false
	}
	a := m.ahead(seq)
	c := (m.n + 1) / 2 // ceil(n/2)
	return a == c || a+1 == c
}

// newer reports whether seq is strictly newer than the newest accepted number.
func (m *model) newer(seq uint64) bool {
	if !m.any {
		if m.wrap {
			return true
		}
		return seq > 0
	}
	if !m.wrap {
		return seq > m.newest
	}
	a := m.ahead(seq)
	return a != 0 && 2*a < m.n // a < n/2 (real-valued), n <= 2^62 in C05, <= 2^63 in C04 generator
}

// behind returns how far seq lies behind newest (only meaningful when !newer).
func (m *model) behind(seq uint64) uint64 {
	if !m.wrap {
		return m.newest - seq
	}
	a := m.ahead(seq)
	if a == 0 {
		return 0
	}
	return m.n - a
}

// wasAccepted: seq accepted before and still "the same number" (same lap position).
func (m *model) wasAccepted(seq uint64) bool {
	_, ok := m.accepted[m.keyOf(seq)]
	return ok
}

// expectOK is the C05 rule.
func (m *model) expectOK(seq uint64) bool {
	if seq > m.max {
		return false
	}
	if m.wrap && !m.any {
		return true
	}
	if m.newer(seq) {
		return true
	}
	if m.wasAccepted(seq) {
		return false
	}
	return m.behind(seq) < m.window
}

// accept applies an accepted number to the model; returns the expected "latest" flag.
func (m *model) accept(seq uint64) bool {
	nw := m.newer(seq)
	first := !m.any
	if nw || first {
		if m.wrap && m.any && seq < m.newest {
			m.lap++
		}
		m.newest = seq
	}
	m.any = true
	m.accepted[m.keyOf(seq)] = struct{}{}
	return nw || first
}

type verdict struct {
	key, desc string
	at        int
}

// run executes one history against the real detector under the oracle of prop.
func run(prop string, h *history, r *res.Result) *verdict {
	step := newStepper(prop, h, r)
	for i := range h.Steps {
		if v := step(i); v != nil {
			return v
		}
	}
	return nil
}

// runTwin drives two detectors, each with its own history and model, turn by turn: detectors are independent objects,
// what one of them is asked must not show in the answers of the other.
func runTwin(prop string, h1, h2 *history, r *res.Result) (*verdict, *history) {
	s1, s2 := newStepper(prop, h1, r), newStepper(prop, h2, r)
	for i := 0; i < len(h1.Steps) || i < len(h2.Steps); i++ {
		if i < len(h1.Steps) {
			if v := s1(i); v != nil {
				v.key = "twin:" + v.key
				return v, h1
			}
		}
		if i < len(h2.Steps) {
			if v := s2(i); v != nil {
				v.key = "twin:" + v.key
				return v, h2
			}
		}
	}
	return nil, nil
}

// newStepper returns the function that executes step i of the history against a fresh detector under the oracle of prop.
func newStepper(prop string, h *history, r *res.Result) func(i int) *verdict {
	var d replaydetector.ReplayDetector
	if h.Wrap {
		d = replaydetector.WithWrap(h.Window, h.Max)
	} else {
		d = replaydetector.New(h.Window, h.Max)
	}
	m := newModel(h)
	type deferred struct {
		acc func() bool
		seq uint64
		due int
	}
	var pending []deferred
	stepBody := func(i int) *verdict {
		st := h.Steps[i]
		// callbacks whose invocation was put off until now (C04 only): other numbers may have been accepted in between
		for len(pending) > 0 && pending[0].due <= i {
			p := pending[0]
			pending = pending[1:]
			if m.boundary(p.seq) {
				continue // would make the model's newest ambiguous
			}
			if prop == "C05" {
				// the statement defines the callback's effect for a number that a check would still admit; a callback whose
				// number has meanwhile been accepted through another callback or has fallen behind the window is dropped
				// uninvoked ("a check whose callback is never invoked has no effect")
				if !m.expectOK(p.seq) {
					r.Count("deferred_dropped_uninvoked", 1)
					continue
				}
				latest := p.acc()
				r.Count("accepts", 1)
				r.Count("accepts_deferred", 1)
				if exp := m.accept(p.seq); latest != exp {
					return &verdict{kind(h) + ":latest-flag-deferred", fmt.Sprintf("before step %d: the callback of Check(%d), invoked after later checks, returned %v expected %v (newest now %d)", i, p.seq, latest, exp, m.newest), i}
				}
				continue
			}
			p.acc()
			r.Count("accepts", 1)
			r.Count("accepts_deferred", 1)
			m.accept(p.seq)
		}
		acc, ok := d.Check(st.Seq)
		r.Count("checks", 1)
		if prop == "C04" {
			if ok && st.Seq > h.Max {
				return &verdict{kind(h) + ":above-max-accepted", fmt.Sprintf("step %d: Check(%d) ok although max=%d", i, st.Seq, h.Max), i}
			}
			if m.any && m.wasAccepted(st.Seq) {
				b := m.behind(st.Seq)
				constrained := !m.wrap || (!m.newer(st.Seq) && b < m.n/2)
				if constrained {
					r.Count("replays_attempted", 1)
					r.DistinctKey(fmt.Sprintf("replay w%%64=%d behind=%s", h.Window%64, bucket(b, m.window)))
					if ok {
						return &verdict{kind(h) + ":replay-accepted", fmt.Sprintf("step %d: Check(%d) ok but it was accepted before (newest=%d, behind=%d, window=%d, max=%d)", i, st.Seq, m.newest, b, h.Window, h.Max), i}
					}
				}
			}
		} else {
			if m.boundary(st.Seq) {
				r.Count("boundary_unconstrained", 1)
				return nil // result ignored, callback never invoked
			}
			exp := m.expectOK(st.Seq)
			r.DistinctKey(fmt.Sprintf("%s w%%64=%d exp=%v newer=%v behind=%s any=%v", kind(h), h.Window%64, exp, m.newer(st.Seq), bucket(behindOr0(m, st.Seq), m.window), m.any))
			if ok != exp {
				why := "fresh-refused"
				if ok {
					why = "stale-accepted"
					if m.wasAccepted(st.Seq) {
						why = "replay-accepted"
					}
				}
				return &verdict{kind(h) + ":" + why, fmt.Sprintf("step %d: Check(%d) ok=%v expected %v (newest=%d any=%v window=%d max=%d)", i, st.Seq, ok, exp, m.newest, m.any, h.Window, h.Max), i}
			}
		}
		if !ok {
			r.Count("refused", 1)
			return nil
		}
		if m.boundary(st.Seq) { // C04: keep the model's newest unambiguous
			return nil
		}
		if !st.Accept {
			r.Count("ok_not_accepted", 1)
			return nil
		}
		if prop == "C04" && st.Seq > h.Max {
			return nil
		}
		if st.Defer > 0 {
			k := len(pending)
			for k > 0 && pending[k-1].due > i+st.Defer {
				k--
			}
			pending = append(pending[:k], append([]deferred{{acc, st.Seq, i + st.Defer}}, pending[k:]...)...)
			return nil
		}
		latest := acc()
		r.Count("accepts", 1)
		exp := m.accept(st.Seq)
		if prop == "C05" && latest != exp {
			return &verdict{kind(h) + ":latest-flag", fmt.Sprintf("step %d: accept(%d) returned %v expected %v (newest now %d)", i, st.Seq, latest, exp, m.newest), i}
		}
		return nil
	}
	return func(i int) (v *verdict) {
		defer func() {
			if p := recover(); p != nil {
				v = &verdict{kind(h) + ":panic", fmt.Sprintf("panic at step %d: %v", i, p), i}
			}
		}()
		return stepBody(i)
	}
}

func behindOr0(m *model, seq uint64) uint64 {
	if seq > m.max || m.newer(seq) {
		return 0
	}
	return m.behind(seq)
}

func kind(h *history) string {
	if h.Wrap {
		return "wrap"
	}
	return "plain"
}

func bucket(b, w uint64) string {
	switch {
	case b < 66:
		return fmt.Sprint(b)
	case b+2 >= w && b <= w+2:
		return fmt.Sprintf("w%+d", int64(b)-int64(w))
	case b < w:
		return fmt.Sprintf("in/%d", b/64)
	default:
		return "out"
	}
}

var windows = []uint{0, 1, 2, 7, 8, 31, 32, 33, 47, 48, 50, 63, 64, 65, 100, 127, 128, 129, 191, 192, 193, 196, 255, 256, 300, 511, 512}

func pick64(rng *rand.Rand, xs ...uint64) uint64 { return xs[rng.Intn(len(xs))] }

// genHistory draws one configuration + history. c05 restricts to the property's quantifier.
func genHistory(rng *rand.Rand, c05 bool) *history {
	h := &history{Wrap: rng.Intn(2) == 0}
	h.Window = windows[rng.Intn(len(windows))]
	w := uint64(h.Window)
	for {
		h.Max = pick64(rng, w-1, w, 2*w, 2*w+1, 255, 1<<16-1, 1<<48-1, 1<<62-1, 1<<64-1, 0, 1, 15, 16, 4*w+3)
		if h.Wrap && h.Max >= 1<<62 {
			continue
		}
		if c05 {
			if h.Max < w || h.Max == 1<<64-1 && w == 0 && false {
				continue
			}
			if h.Wrap && (h.Max+1 < 2*w || h.Max+1 < 5) { // N<=4: every number is one of the two nearest the boundary
				continue
			}
		} else if h.Wrap && h.Max+1 < 3 {
			continue // degenerate: half-space is empty
		}
		break
	}
	n := 200 + rng.Intn(1800)
	if rng.Intn(4) == 0 {
		n = 20 + rng.Intn(60)
	}
	pAcc := []float64{1, 1, 0.7, 0.2}[rng.Intn(4)]
	// C04 only: some accept callbacks are invoked only after later checks and accepts. C05 is quantified over histories in
	// which a callback is invoked before the next check or never, so its histories do not defer (the code path for deferred
	// callbacks under C05 below is kept for replaying witnesses but no generated history reaches it).
	deferring := !c05 && rng.Intn(3) == 0
	// generator-side walk around its own idea of "newest" (simply: last number it asked to accept)
	var cur uint64
	switch rng.Intn(6) {
	case 0:
		cur = 0
	case 1:
		cur = h.Max
	case 2:
		if h.Max > w {
			cur = h.Max - w
		}
	case 3:
		cur = h.Max / 2
	case 4:
		cur = w
	default:
		cur = randBelow(rng, h.Max)
	}
	N := h.Max + 1 // 0 when max = 2^64-1 (plain only)
	norm := func(x uint64, fwd bool) uint64 {
		if h.Wrap {
			return x % N
		}
		return x
	}
	var recent []uint64
	for i := 0; i < n; i++ {
		var s uint64
		switch k := rng.Intn(20); {
		case k < 5: // small forward step
			s = norm(cur+uint64(1+rng.Intn(3)), true)
			if !h.Wrap && s < cur {
				s = cur
			}
		case k < 7: // larger forward jump
			j := uint64(1 + rng.Intn(int(2*w+70)))
			s = norm(cur+j, true)
			if !h.Wrap && s < cur {
				s = h.Max
			}
		case k < 12: // every distance 0..window+2 behind
			b := uint64(rng.Intn(int(w + 3)))
			if h.Wrap {
				s = (cur + N - b%N) % N
			} else if b <= cur {
				s = cur - b
			} else {
				s = 0
			}
		case k < 16 && len(recent) > 0: // re-check something accepted earlier
			s = recent[rng.Intn(len(recent))]
		case k == 16: // special numbers
			s = pick64(rng, 0, 1, h.Max, h.Max-1, h.Max+1, h.Max+2, w, w-1, w+1, 1<<63, 1<<64-1, 1<<64-1-w, -w)
			if h.Wrap && !c05 && s > h.Max && rng.Intn(3) > 0 {
				s = s % N
			}
		case k == 17 && h.Wrap: // around the half-space boundary
			half := N / 2
			s = (cur + half + uint64(rng.Intn(7)) + N - 3) % N
		case k == 18: // far jump
			if h.Wrap {
				s = (cur + randBelow(rng, N/2+1)) % N
			} else {
				s = cur + randBelow(rng, h.Max-cur)
			}
		default:
			s = norm(cur+1, true)
			if !h.Wrap && s < cur {
				s = cur
			}
		}
		acc := rng.Float64() < pAcc
		st := step{Seq: s, Accept: acc}
		if deferring && acc && rng.Intn(3) == 0 {
			st.Defer = 1 + rng.Intn(4)
		}
		h.Steps = append(h.Steps, st)
		if acc && s <= h.Max {
			fwd := s > cur
			if h.Wrap {
				a := (s + N - cur) % N
				fwd = a != 0 && a < N/2
			}
			if fwd {
				cur = s
			}
			if len(recent) < 4096 {
				recent = append(recent, s)
			} else {
				recent[rng.Intn(len(recent))] = s
			}
		}
	}
	return h
}

func randBelow(rng *rand.Rand, n uint64) uint64 {
	if n == 0 {
		return 0
	}
	return rng.Uint64() % n
}

// exhaustive enumerates all histories of length <= L over a tiny sequence space.
func exhaustive(prop string, r *res.Result, shard, nshard int) {
	idx := 0
	for _, wrap := range []bool{true, false} {
		for _, max := range []uint64{7, 15, 16} {
			for w := uint(0); w <= 9; w++ {
				if prop == "C05" && (uint64(w) > max || wrap && max+1 < 2*uint64(w)) {
					continue
				}
				for accMode := 0; accMode < 3; accMode++ {
					idx++
					if idx%nshard != shard {
						continue
					}
					L := 5
					if max > 7 {
						L = 4
					}
					seqs := make([]uint64, L)
					var rec func(d int)
					stop := false
					rec = func(d int) {
						if stop {
							return
						}
						if d > 0 {
							h := &history{Wrap: wrap, Window: w, Max: max}
							for i := 0; i < d; i++ {
								a := accMode == 0 || accMode == 2 && i%2 == 0
								h.Steps = append(h.Steps, step{Seq: seqs[i], Accept: a})
							}
							r.Eval(1)
							r.Count("exhaustive_histories", 1)
							if v := run(prop, h, r); v != nil {
								h.Steps = h.Steps[:v.at+1]
								r.Violate(v.key, v.desc, h)
								stop = true
								return
							}
						}
						if d == L {
							return
						}
						for s := uint64(0); s <= max+1; s++ {
							seqs[d] = s
							rec(d + 1)
						}
					}
					rec(0)
				}
			}
		}
	}
}

func main() {
	prop := flag.String("prop", "C04", "C04|C05")
	tier := flag.String("tier", "quick", "")
	seed := flag.Int64("seed", 1, "")
	shard := flag.Int("shard", 0, "")
	nshard := flag.Int("nshard", 1, "")
	out := flag.String("out", "", "")
	replay := flag.String("replay", "", "witness file to re-execute")
	flag.Parse()
	r := res.New(*prop)
	if *prop == "C04" {
		r.Rule = "histories of Check/accept drawn from a seeded walk around the newest number (forward steps, every distance 0..window+2 behind, re-checks of accepted numbers, specials around 0/max/2^64/half-space; in a third of the histories a third of the accept callbacks are invoked only 1-4 steps later, after other checks and accepts); oracle = set of accepted numbers; distinct = (window mod 64, distance-behind bucket) cells in which a replay of an accepted number was attempted"
	} else {
		r.Rule = "same generator restricted to max>=window (wrap: max+1>=2*window, max<2^62); oracle = sliding-window rule from the statement; distinct = (detector kind, window mod 64, expected answer, newer?, distance bucket, anything-accepted?) cells compared"
	}
	r.Assumptions = []string{"detector used from one goroutine (not documented concurrent-safe)", "wrapping detector: the two numbers nearest the half-space boundary are unconstrained and never accepted"}
	if *replay != "" {
		b, err := os.ReadFile(*replay)
		if err != nil {
			fmt.Fprintln(os.Stderr, err)
			os.Exit(2)
		}
		var w struct {
			Witness history `json:"witness"`
		}
		if err := json.Unmarshal(b, &w); err != nil {
			fmt.Fprintln(os.Stderr, err)
			os.Exit(2)
		}
		r.Eval(1)
		var tw struct {
			Witness struct {
				First  *history `json:"first"`
				Second *history `json:"second"`
			} `json:"witness"`
		}
		if json.Unmarshal(b, &tw) == nil && tw.Witness.First != nil && tw.Witness.Second != nil {
			if v, hv := runTwin(*prop, tw.Witness.First, tw.Witness.Second, r); v != nil {
				r.Violate(v.key, v.desc, map[string]interface{}{"deviating": hv, "first": tw.Witness.First, "second": tw.Witness.Second})
			}
			r.Write(*out)
			return
		}
		if v := run(*prop, &w.Witness, r); v != nil {
			r.Violate(v.key, v.desc, &w.Witness)
		}
		r.Write(*out)
		return
	}
	nh := 40000
	if *tier == "thorough" {
		nh = 4000000
	}
	per := nh / *nshard
	rng := rand.New(rand.NewSource(*seed*1000003 + int64(*shard)*7919 + 17))
	seenKeys := map[string]int{}
	for i := 0; i < per; i++ {
		h := genHistory(rng, *prop == "C05")
		r.Eval(1)
		if i < 2 && *shard == 0 {
			hs := *h
			if len(hs.Steps) > 12 {
				hs.Steps = hs.Steps[:12]
			}
			r.Sample(hs)
		}
		if i%8 == 7 {
			// two detectors side by side, each with its own configuration, history and model
			h2 := genHistory(rng, *prop == "C05")
			r.Count("twin_histories", 1)
			if v, hv := runTwin(*prop, h, h2, r); v != nil {
				seenKeys[v.key]++
				if seenKeys[v.key] <= 3 {
					r.Violate(v.key, v.desc+" (two detectors were used turn by turn; the witness is the history of the one that deviated and replays alone only if the fault is not in shared state)", map[string]interface{}{"deviating": hv, "first": h, "second": h2})
				}
			}
			continue
		}
		if v := run(*prop, h, r); v != nil {
			seenKeys[v.key]++
			if seenKeys[v.key] <= 3 {
				h.Steps = h.Steps[:v.at+1]
				r.Violate(v.key, v.desc, h)
			} else {
				r.Count("violations_more_of_same_key", 1)
			}
		}
	}
	if *tier == "thorough" {
		exhaustive(*prop, r, *shard, *nshard)
	}
	r.Write(*out)
}
